package main

import (
	"fmt"
	"go/constant"
	"go/token"
	"go/types"
	"reflect"
	"regexp/syntax"
	"strings"
	"unicode"

	"golang.org/x/tools/go/ssa"
)

func init() {
	register(&Property{
		ID: "C17",
		Explanation: "Decides the structure of configuration defaulting: (R1) every store to a configuration field inside ApplyDefaults' callees is control-dependent on the zero-test of that very field and stores a value that differs from the zero value (⇒ explicit values are preserved and a second application is a no-op); the two environment overrides are the only stores that are not zero-tested — they follow the default of their field and are guarded only by the variable being non-empty; " +
			"(R2) in the three derived-settings getters, every Config[K] lookup assigns exactly the field whose yaml tag equals K, from that lookup's value, no field is written outside the lookup of its own key, and inherited fields copy the like-named main-connection fields; " +
			"(R3) the unit switch converts after multiplying: result = int(parsedFloat × 1024^k) with k = 0,1,2,3 for B, KB, MB, GB of the upper-cased last two bytes. " +
			"NOT decided: the documented default values themselves (pinned by unit tests; the README table disagrees with the code for the membership type), float truncation semantics, the ${VAR} regex substitution.",
		Assumptions: []string{"yaml field tags are the documented override keys"},
		Rules: []RuleDef{
			{ID: "C17.R1", Text: "defaulting: each store is guarded by the zero-test of the same field and stores a non-zero value; env overrides are the only unguarded-by-zero stores, after the default, guarded by Getenv≠\"\" only", Run: c17r1},
			{ID: "C17.R2", Text: "override tables: Config[K] assigns the field with yaml tag K from that lookup; no other store to the derived struct; inherited fields copy the like-named main-connection field", Run: c17r2},
			{ID: "C17.R3", Text: "unit switch: int(size × 1024^k), k = position of the upper-cased two-byte unit in B, KB, MB, GB; conversion after multiplication", Run: c17r3},
		},
	})
}

func zeroOrigin(t types.Type) []string {
	switch u := t.Underlying().(type) {
	case *types.Basic:
		if u.Info()&types.IsString != 0 {
			return []string{`const("")`}
		}
		if u.Info()&types.IsNumeric != 0 {
			return []string{"const(0)"}
		}
		if u.Kind() == types.Bool {
			return []string{"const(false)"}
		}
	}
	return []string{"const(nil)"}
}

// defaultSetter: a helper fn(p *T, v T) whose whole effect is `if *p == <zero of T> { *p = v }` — a call
// fn(&c.X, K) is then the zero-guarded default X ← K.
func defaultSetter(w *World, fn *ssa.Function) bool {
	if fn == nil || fn.Blocks == nil || len(fn.Params) != 2 || fn.Signature.Recv() != nil {
		return false
	}
	pt, ok := fn.Params[0].Type().Underlying().(*types.Pointer)
	if !ok {
		return false
	}
	zeros := zeroOrigin(pt.Elem())
	stores, other := 0, false
	okStore := false
	allInstrs(fn, func(in ssa.Instruction) {
		switch x := in.(type) {
		case *ssa.Store:
			stores++
			if x.Addr != ssa.Value(fn.Params[0]) || x.Val != ssa.Value(fn.Params[1]) {
				return
			}
			gs := guardsOf(in.Block())
			if len(gs) != 1 {
				return
			}
			v, pol := stripNot(gs[0].Cond, gs[0].Branch)
			b, isB := v.(*ssa.BinOp)
			if !isB || !pol || b.Op != token.EQL {
				return
			}
			isLoad := func(y ssa.Value) bool {
				u, ok := y.(*ssa.UnOp)
				return ok && u.Op == token.MUL && u.X == ssa.Value(fn.Params[0])
			}
			for _, z := range zeros {
				if (isLoad(b.X) && w.Origin(b.Y) == z) || (isLoad(b.Y) && w.Origin(b.X) == z) {
					okStore = true
				}
			}
		case ssa.CallInstruction:
			if !strings.Contains(calleeName(x.Common()), "logger") {
				other = true
			}
		case *ssa.Send, *ssa.MapUpdate, *ssa.Panic:
			other = true
		}
	})
	return stores == 1 && okStore && !other
}

func c17r1(c *Ctx, id string) {
	w := c.W
	ad := w.Method("config", "Dcp", "ApplyDefaults")
	c.need(ad != nil, id, "config.(*Dcp).ApplyDefaults")
	callees := w.syncCallees(ad, 1, false)
	// the stores may sit one level further down (a step split into two); set-when-unset helpers are judged at their
	// call sites, not as stores through a pointer
	scan := map[*ssa.Function]bool{}
	for f := range w.syncCallees(ad, 2, false) {
		if pkgOfFn(f) == pkgOfFn(ad) && !defaultSetter(w, f) {
			scan[f] = true
		}
	}
	n := 0
	defaulted := map[string]*ssa.BasicBlock{}
	type envStore struct {
		fn     *ssa.Function
		st     *ssa.Store
		target string
	}
	var envs []envStore
	for fn := range scan {
		if fn == ad {
			continue
		}
		c.see(fn)
		allInstrs(fn, func(in ssa.Instruction) {
			// a default written through a set-when-unset helper
			if call, isCall := in.(*ssa.Call); isCall {
				if h := call.Common().StaticCallee(); h != nil && w.inModule(h) && len(call.Common().Args) == 2 && defaultSetter(w, h) {
					target := w.Origin(call.Common().Args[0])
					if strings.HasPrefix(target, "&recv.") {
						path := strings.TrimPrefix(target, "&")
						n++
						val := w.Origin(call.Common().Args[1])
						extra := 0
						for _, g := range guardsOf(in.Block()) {
							if !strings.Contains(w.Origin(g.Cond), "logger.Log") {
								extra++
							}
						}
						nonZero := true
						for _, z := range zeroOrigin(call.Common().Args[1].Type()) {
							if val == z {
								nonZero = false
							}
						}
						construct := "default:" + strings.TrimPrefix(path, "recv.")
						if nonZero && extra == 0 && !strings.Contains(val, "global(") {
							defaulted[path] = in.Block()
							c.OK(id, construct, in.Pos(), "set only when unset (through %s), to %s", h.Name(), val)
						} else {
							c.Fail(id, construct, in.Pos(), "default of %s ← %s through %s (non-zero: %v, extra conditions: %d)", path, val, h.Name(), nonZero, extra)
						}
					}
				}
				return
			}
			st, ok := in.(*ssa.Store)
			if !ok {
				return
			}
			target := w.Origin(st.Addr)
			if !strings.HasPrefix(target, "&recv.") {
				// a store through a pointer that is not a field path of the configuration: if it can point into the
				// configuration (a scalar reached through a loaded or ranged-over address), nothing shows that it is a
				// zero-guarded default
				if _, local := st.Addr.(*ssa.Alloc); local {
					return
				}
				if _, isIdx := st.Addr.(*ssa.IndexAddr); isIdx {
					return // element of a local array/slice (argument lists)
				}
				if fa, isFA := st.Addr.(*ssa.FieldAddr); isFA {
					if _, onLocal := fa.X.(*ssa.Alloc); onLocal {
						return
					}
				}
				if _, isBasic := st.Addr.Type().(*types.Pointer).Elem().Underlying().(*types.Basic); isBasic && !strings.HasPrefix(target, "&global(") {
					n++
					c.Fail(id, "indirect-store@"+fn.Name(), in.Pos(), "%s writes %s through the pointer %s: an option may be rewritten outside a zero-guarded default", fn.Name(), w.Origin(st.Val), target)
				}
				return
			}
			path := strings.TrimPrefix(target, "&")
			n++
			elemT := st.Addr.Type().(*types.Pointer).Elem()
			zeros := zeroOrigin(elemT)
			// guard: zero test of the same field
			zeroGuard := guardedBy(in.Block(), true, func(v ssa.Value) bool {
				b, ok := v.(*ssa.BinOp)
				if !ok || b.Op != token.EQL {
					return false
				}
				x, y := w.Origin(b.X), w.Origin(b.Y)
				for _, z := range zeros {
					if (x == path && y == z) || (y == path && x == z) {
						return true
					}
				}
				return false
			})
			val := w.Origin(st.Val)
			construct := "default:" + strings.TrimPrefix(path, "recv.")
			if zeroGuard {
				nonZero := true
				for _, z := range zeros {
					if val == z {
						nonZero = false
					}
				}
				if cst, ok := st.Val.(*ssa.Const); ok && cst.Value != nil && cst.Value.Kind() == constant.String && constant.StringVal(cst.Value) == "" {
					nonZero = false
				}
				// exactly one guard besides nothing else
				extra := -1
				for _, g := range guardsOf(in.Block()) {
					// "no logger was injected" is not a configuration option: the level default may depend on it
					if strings.Contains(w.Origin(g.Cond), "logger.Log") {
						continue
					}
					extra++
				}
				// a default of reference type is a fresh value, not one shared with other configurations through a
				// package-level variable (editing one config's default in place would change the "default" of the next)
				switch elemT.Underlying().(type) {
				case *types.Slice, *types.Map, *types.Pointer:
					if strings.Contains(val, "global(") {
						c.Fail(id, construct, in.Pos(), "default of %s is the package-level value %s shared by every defaulted configuration", path, val)
						return
					}
				}
				if nonZero && extra == 0 {
					defaulted[path] = in.Block()
					c.OK(id, construct, in.Pos(), "set only when unset, to %s", val)
				} else {
					c.Fail(id, construct, in.Pos(), "default store of %s ← %s (non-zero: %v, extra conditions: %d) — defaulting would not be idempotent / would depend on other options", path, val, nonZero, extra)
				}
				return
			}
			// not zero-guarded: must be an environment override
			envs = append(envs, envStore{fn, st, path})
		})
	}
	// environment overrides: the stores that are not zero-guarded must target the two membership numbers; what they
	// do is decided by evaluating the function that reads the environment (helpers inlined) over every combination
	// of (field set in file or not) × (variable set or not) × (variable an integer or not)
	envFields := map[string]string{"recv.Dcp.Group.Membership.TotalMembers": "TOTALMEMBERS", "recv.Dcp.Group.Membership.MemberNumber": "MEMBERNUMBER"}
	for _, e := range envs {
		construct := "env-override:" + strings.TrimPrefix(e.target, "recv.")
		if _, ok := envFields[e.target]; ok {
			c.OK(id, construct, e.st.Pos(), "a store outside the zero-guarded defaults, to a field with an environment override (its behaviour is decided by env-semantics)")
		} else {
			c.Fail(id, construct, e.st.Pos(), "store to %s ← %s is neither a zero-guarded default nor an environment override of the member number / group size", e.target, w.Origin(e.st.Val))
		}
	}
	var envFn *ssa.Function
	nEnvFn := 0
	for fn := range callees {
		if fn == ad {
			continue
		}
		reads := false
		for f := range w.syncCallees(fn, 3, false) {
			allInstrs(f, func(in ssa.Instruction) {
				if cc := callOf(in); cc != nil && isStaticCall(cc, "os", "", "Getenv") {
					reads = true
				}
			})
		}
		if reads {
			envFn = fn
			nEnvFn++
		}
	}
	if nEnvFn != 1 {
		c.Undecided(id, "env-semantics", ad.Pos(), "%d defaulting steps read the environment (expected one)", nEnvFn)
	} else {
		c17env(c, id, envFn, envFields)
	}
	if len(envs) != 2 {
		c.Fail(id, "env-overrides", ad.Pos(), "%d stores are not zero-guarded (expected exactly the two environment overrides of member number and group size)", len(envs))
	}
	if n < 20 {
		c.Undecided(id, "floor", 0, "only %d defaulting stores found (28 on the reference tree; floor 20)", n)
	}
}

func yamlTag(st *types.Struct, i int) string {
	return strings.Split(reflect.StructTag(st.Tag(i)).Get("yaml"), ",")[0]
}

func c17r2(c *Ctx, id string) {
	w := c.W
	getters := []struct{ fn, typ string }{{"GetCouchbaseMetadata", "CouchbaseMetadata"}, {"GetCouchbaseMembership", "CouchbaseMembership"}, {"GetKubernetesLeaderElector", "KubernetesLeaderElector"}}
	for _, g := range getters {
		fn := w.Method("config", "Dcp", g.fn)
		nt := w.NamedType("config", g.typ)
		if fn == nil || nt == nil {
			c.Undecided(id, g.fn, 0, "getter or type not found")
			continue
		}
		c.see(fn)
		stt := nt.Underlying().(*types.Struct)
		allocs := allocsOf(fn, nt)
		if len(allocs) != 1 {
			c.Undecided(id, g.fn, fn.Pos(), "%d literals of %s", len(allocs), g.typ)
			continue
		}
		a := allocs[0]
		n := 0
		for _, r := range *a.Referrers() {
			fa, ok := r.(*ssa.FieldAddr)
			if !ok {
				continue
			}
			f := stt.Field(fa.Field)
			tag := yamlTag(stt, fa.Field)
			for _, rr := range *fa.Referrers() {
				st, ok := rr.(*ssa.Store)
				if !ok || st.Addr != ssa.Value(fa) {
					continue
				}
				// literal initialisation: in the alloc's block before any lookup guard
				gs := guardsOf(st.Block())
				var keys []string
				var lookups []*ssa.Lookup
				var lookupTerms []string // what carries the looked-up value (the lookup itself, or the helper call that made it)
				for _, gd := range gs {
					if ex, ok := gd.Cond.(*ssa.Extract); ok && gd.Branch && ex.Index == 1 {
						if lk, ok := ex.Tuple.(*ssa.Lookup); ok {
							if cst, ok := lk.Index.(*ssa.Const); ok && cst.Value != nil {
								keys = append(keys, constant.StringVal(cst.Value))
								lookups = append(lookups, lk)
								lookupTerms = append(lookupTerms, w.Origin(lk))
							}
						}
						// `if v, ok := parseConfigValue(m, "key", parser, …); ok`: a lookup-and-parse helper whose flag is
						// the presence of the key
						if call, ok := ex.Tuple.(*ssa.Call); ok {
							if key, okh := lookupAndParse(w, call); okh {
								keys = append(keys, key)
								lookups = append(lookups, nil)
								lookupTerms = append(lookupTerms, w.Origin(call))
							}
						}
					}
				}
				construct := g.fn + ":" + f.Name()
				if len(keys) == 0 {
					// `field = valueOr(m, "key", field)`: a lookup-or-keep helper is the override of that key
					if key, okh := lookupOrKeep(w, st.Val, fa); okh {
						n++
						if key == tag {
							c.OK(id, construct, st.Pos(), "Config[%q] → field %s (yaml:%q) through a lookup-or-keep helper", key, f.Name(), tag)
						} else {
							c.Fail(id, construct, st.Pos(), "field %s (yaml:%q) is overridden by the key %q — each option must be overridden by exactly its own key", f.Name(), tag, key)
						}
						continue
					}
				}
				if len(keys) == 0 {
					// initial literal: inherited or default value — must be written before any override is looked up
					late := false
					allInstrs(fn, func(x ssa.Instruction) {
						if lk, ok := x.(*ssa.Lookup); ok && !dominatesInstr(st, lk) {
							late = true
						}
					})
					if late {
						c.Fail(id, construct+":late-default", st.Pos(), "field %s ← %s is (re)computed after overrides were applied and outside the lookup of its own key: overriding another option changes this one", f.Name(), w.Origin(st.Val))
						continue
					}
					if g.typ == "CouchbaseMetadata" {
						inherit := map[string]string{"Hosts": "recv.Hosts", "Username": "recv.Username", "Password": "recv.Password", "Bucket": "recv.BucketName", "SecureConnection": "recv.SecureConnection", "RootCAPath": "recv.RootCAPath"}
						if wv, ok := inherit[f.Name()]; ok {
							got := w.Origin(st.Val)
							c.Check(got == wv, id, construct+":inherit", st.Pos(), f.Name()+" ← "+got, "inherited field "+f.Name()+" ← "+got+", expected "+wv)
						}
					}
					continue
				}
				n++
				// the innermost lookup decides; outer lookups are mandatory options whose absence panics
				last := len(keys) - 1
				okKey := keys[last] == tag
				okVal := strings.Contains(w.Origin(st.Val), lookupTerms[last]+"#0")
				for i := 0; i < last; i++ {
					if lookups[i] == nil || !mandatoryLookup(lookups[i]) {
						okKey = false
					}
				}
				// no other conditions than the lookup and error checks of its conversion
				extra := 0
				for _, gd := range gs {
					v, _ := stripNot(gd.Cond, gd.Branch)
					o := w.Origin(v)
					if _, isEx := gd.Cond.(*ssa.Extract); isEx {
						continue
					}
					if strings.HasSuffix(o, "#1 != const(nil))") || strings.HasSuffix(o, "#1 == const(nil))") {
						continue
					}
					extra++
				}
				if okKey && okVal && extra == 0 {
					c.OK(id, construct, st.Pos(), "Config[%q] → field %s (yaml:%q)", keys[last], f.Name(), tag)
				} else {
					c.Fail(id, construct, st.Pos(), "field %s (yaml:%q) is written under lookup keys %v from %s (extra conditions %d) — each option must be overridden by exactly its own key", f.Name(), tag, keys, w.Origin(st.Val), extra)
				}
			}
		}
		// the literal's remaining defaults are constants (not derived from other options)
		tab, _ := allocTable(a)
		for _, k := range sortedKeys(tab) {
			_ = k
		}
		if n < 3 {
			c.Undecided(id, g.fn+":floor", fn.Pos(), "only %d override stores found", n)
		}
		// every returned value is the literal
		allInstrs(fn, func(in ssa.Instruction) {
			if r, ok := in.(*ssa.Return); ok && len(r.Results) == 1 {
				c.Check(asAlloc(r.Results[0]) == a, id, g.fn+":result", in.Pos(), "returns the literal it filled", "returns "+w.Origin(r.Results[0]))
			}
		})
	}
	c.Floor(id, 15)
}

func c17r3(c *Ctx, id string) {
	w := c.W
	fn := w.Func("helpers", "convertSizeUnitToByte")
	c.need(fn != nil, id, "helpers.convertSizeUnitToByte")
	c.see(fn)
	want := map[string]float64{"B": 1, "KB": 1024, "MB": 1024 * 1024, "GB": 1024 * 1024 * 1024}
	seen := map[string]bool{}
	p := "param(" + fn.Params[0].Name() + ")"
	unitExpr := "call(strings.ToUpper)(" + p + "[(len(" + p + ") - const(2)):<nil>])"
	allInstrs(fn, func(in ssa.Instruction) {
		r, ok := in.(*ssa.Return)
		if !ok || len(r.Results) != 2 || !isNilConst(r.Results[1]) {
			return
		}
		// which unit?
		unit := ""
		for _, g := range guardsOf(in.Block()) {
			if !g.Branch {
				continue
			}
			o := w.Origin(g.Cond)
			for u := range want {
				if o == "("+unitExpr+" == const(\""+u+"\"))" {
					unit = u
				}
			}
		}
		if unit == "" {
			c.Fail(id, "unit:?", in.Pos(), "a success return is not selected by comparing the upper-cased last two bytes with B/KB/MB/GB")
			return
		}
		seen[unit] = true
		// value = Convert(float chain)
		cv, ok := r.Results[0].(*ssa.Convert)
		prod := 1.0
		okShape := ok
		var leaf ssa.Value
		if ok {
			v := cv.X
			if b, isB := v.Type().Underlying().(*types.Basic); !isB || b.Info()&types.IsFloat == 0 {
				okShape = false
			}
			for {
				b, isBin := v.(*ssa.BinOp)
				if !isBin || b.Op != token.MUL {
					break
				}
				cst, isC := b.Y.(*ssa.Const)
				if !isC || cst.Value == nil {
					okShape = false
					break
				}
				f, _ := constant.Float64Val(cst.Value)
				prod *= f
				v = b.X
			}
			leaf = v
		}
		okLeaf := leaf != nil && strings.HasPrefix(w.Origin(leaf), "call(strconv.ParseFloat)(") && strings.HasSuffix(w.Origin(leaf), "#0")
		if okShape && okLeaf && prod == want[unit] {
			c.OK(id, "unit:"+unit, in.Pos(), "int(size × %.0f)", prod)
		} else {
			c.Fail(id, "unit:"+unit, in.Pos(), "unit %s resolves to %s (multiplier %.0f, conversion applied after multiplying: %v) — expected int(size × %.0f)", unit, w.Origin(r.Results[0]), prod, okShape && okLeaf, want[unit])
		}
	})
	for u := range want {
		if !seen[u] {
			c.Fail(id, "unit:"+u, fn.Pos(), "unit %s is not handled", u)
		}
	}
	// the numeric part: everything but the last two bytes, trimmed, comma → point
	okNum := false
	allInstrs(fn, func(in ssa.Instruction) {
		if cc := callOf(in); cc != nil && isStaticCall(cc, "strconv", "", "ParseFloat") {
			o := w.Origin(cc.Args[0])
			okNum = o == "call(strings.ReplaceAll)(call(strings.TrimSpace)("+p+"[<nil>:(len("+p+") - const(2))]), const(\",\"), const(\".\"))"
			c.Check(okNum, id, "numeric-part", in.Pos(), "number ← "+o, "numeric part parsed from "+o)
		}
	})
	// (that a plain integer string resolves to that integer is decided by the whole-function evaluation of the resolver, C17.R5)
	_ = fmt.Sprint
}

// mandatoryLookup: the not-found branch of the lookup's comma-ok test ends in a panic.
func mandatoryLookup(lk *ssa.Lookup) bool {
	for _, r := range *lk.Referrers() {
		ex, ok := r.(*ssa.Extract)
		if !ok || ex.Index != 1 {
			continue
		}
		for _, rr := range *ex.Referrers() {
			ifi, ok := rr.(*ssa.If)
			if !ok {
				continue
			}
			els := ifi.Block().Succs[1]
			for _, in := range els.Instrs {
				if isPanicLike(in) {
					return true
				}
			}
		}
	}
	return false
}

func init() {
	p := registry["C17"]
	p.Rules = append(p.Rules, RuleDef{ID: "C17.R4", Text: "${VAR} substitution: for every match of the placeholder pattern, when LookupEnv(name) reports the variable as set, ALL occurrences of \"${\"+name+\"}\" are replaced by its value in the text that is finally unmarshalled", Run: c17r4})
	p.Rules = append(p.Rules, RuleDef{ID: "C17.R6", Text: "an explicitly set value stays what it is: outside package config the configuration is only read — no store into a configuration field, no update of a configuration map (frozen exception: stream.Open disables rollback mitigation for an ephemeral bucket)", Run: configImmutable})
	p.Rules = append(p.Rules, RuleDef{ID: "C17.R12", Text: "placeholders and overrides are resolved against the real environment: the module reads the process environment and never writes it (no Setenv/Unsetenv/Clearenv)", Run: envReadOnly})
	p.Rules = append(p.Rules, RuleDef{ID: "C17.R13", Text: "defaulting sees the configuration the application wrote: the pointer, struct value or loaded file handed to the public constructors reaches the defaulting function as it is — no copy, clone or normalisation step in between (which can turn unset into set)", Run: configHandedOn})
	p.Rules = append(p.Rules, RuleDef{ID: "C17.R11", Text: "the two-pass load (raw, then with ${VAR} substituted, into the same value) overwrites: no configuration type decodes itself (no Unmarshal*/Decode* method on a type of package config)", Run: noCustomDecoding})
	p.Rules = append(p.Rules, RuleDef{ID: "C17.R10", Text: "a size string whose numeric part does not parse is an error exactly on the branch on which the parse failed, and a string that is neither integer nor number+unit is fatal", Run: parseFailures})
	p.Rules = append(p.Rules, RuleDef{ID: "C17.R9", Text: "an override that cannot be parsed is fatal, never silently zero: in every derived-settings getter each parse error reaches a panic along the edges on which it is non-nil; the file backend's file name is returned ⇔ configured and not empty (exhaustive)", Run: overrideParsing})
	p.Rules = append(p.Rules, RuleDef{ID: "C17.R8", Text: "every unset option is filled with its documented default: for each row of the option table in README.md with a non-zero default, a step that ApplyDefaults calls unconditionally stores exactly that value into the field the key's yaml path denotes, under the zero test of that field only (options whose documented default needs no store are listed with the reason)", Run: documentedDefaults})
	p.Rules = append(p.Rules, RuleDef{ID: "C17.R7", Text: "the defaults are applied: the client's start and close paths call by call: the stream is opened, the listener subscribed (failure fatal), each optional component started and stopped under exactly its configuration switch (polarity included), Commit is Stream.Save, SetMetadata installs the supplied store, newDcp applies the defaults first and returns every error", Run: clientWiring})
	p.Rules = append(p.Rules, RuleDef{ID: "C17.R5", Text: "the int-or-string resolver hands the configured string itself (unmodified) to the integer parser and, only when that fails, to the unit parser; integers map to themselves; nothing else is returned", Run: c17r5})
	p.Explanation = strings.Replace(p.Explanation, "NOT decided:", "(R4) the ${VAR} substitution replaces every occurrence (ReplaceAll) of exactly \"${\"+name+\"}\" by LookupEnv(name)'s value, only when the variable is set, over all matches, and the substituted text is what gets parsed. NOT decided:", 1)
}

func c17r4(c *Ctx, id string) {
	w := c.W
	var fn *ssa.Function
	for _, f := range w.ModFuncs {
		if fname(f) == "dcp.newDcpConfig" {
			fn = f
		}
	}
	c.need(fn != nil, id, "dcp.newDcpConfig")
	c.see(fn)
	var repl *ssa.Call
	nRepl := 0
	allInstrs(fn, func(in ssa.Instruction) {
		if call, ok := in.(*ssa.Call); ok {
			cc := call.Common()
			if isStaticCall(cc, "strings", "", "ReplaceAll") || (isStaticCall(cc, "strings", "", "Replace") && len(cc.Args) == 4 && w.Origin(cc.Args[3]) == "const(-1)") {
				repl = call
				nRepl++
			} else if isStaticCall(cc, "strings", "", "Replace") {
				repl = call
				nRepl++
			}
		}
	})
	if nRepl != 1 {
		c.Fail(id, "replace", fn.Pos(), "%d placeholder replacement calls (expected one ReplaceAll)", nRepl)
		return
	}
	cc := repl.Common()
	all := isStaticCall(cc, "strings", "", "ReplaceAll") || w.Origin(cc.Args[len(cc.Args)-1]) == "const(-1)"
	c.Check(all, id, "every-occurrence", repl.Pos(), "all occurrences are replaced", "only a bounded number of occurrences of a placeholder is replaced")
	// pattern = "${" + name + "}"
	var name ssa.Value
	okPat := false
	if b, ok := unwrap(cc.Args[1]).(*ssa.BinOp); ok && b.Op == token.ADD && w.Origin(b.Y) == `const("}")` {
		if b2, ok := b.X.(*ssa.BinOp); ok && b2.Op == token.ADD && w.Origin(b2.X) == `const("${")` {
			name = b2.Y
			okPat = true
		}
	}
	c.Check(okPat, id, "pattern", repl.Pos(), "replaces exactly \"${\"+name+\"}\"", "the replaced text is "+w.Origin(cc.Args[1])+", expected \"${\"+name+\"}\"")
	if !okPat {
		return
	}
	// value = LookupEnv(name)#0, guarded by #1
	var lk *ssa.Call
	if ex, ok := unwrap(cc.Args[2]).(*ssa.Extract); ok && ex.Index == 0 {
		if call, ok := ex.Tuple.(*ssa.Call); ok && isStaticCall(call.Common(), "os", "", "LookupEnv") {
			lk = call
		}
	}
	okVal := lk != nil && w.Origin(lk.Common().Args[0]) == w.Origin(name)
	okGuard := lk != nil && guardedBy(repl.Block(), true, func(v ssa.Value) bool {
		ex, ok := v.(*ssa.Extract)
		return ok && ex.Index == 1 && ex.Tuple == ssa.Value(lk)
	})
	c.Check(okVal && okGuard, id, "value", repl.Pos(), "replacement value = LookupEnv(name), applied only when the variable is set", fmt.Sprintf("replacement value %s (from LookupEnv of the same name: %v, only when set: %v)", w.Origin(cc.Args[2]), okVal, okGuard))
	// name = match[1] over FindAllStringSubmatch(pattern, file, -1)
	no := w.Origin(name)
	okAll := strings.Contains(no, "FindAllStringSubmatch)(") && strings.Contains(no, ", const(-1))[") && strings.HasSuffix(no, "][const(1)]")
	c.Check(okAll, id, "all-matches", repl.Pos(), "name ranges over submatch 1 of all matches", "name ← "+no+", expected submatch[1] of every match (FindAllStringSubmatch(…, -1))")
	// the placeholder pattern itself (a constant of the program, analysed with regexp/syntax — nothing is matched or run)
	c17pattern(c, id, fn)
	// the substituted text is loop-carried and finally parsed
	// (the phi may be split over the loop header and the join after the if: leaves are taken through nested phis)
	okCarried := false
	if phi, ok := unwrap(cc.Args[0]).(*ssa.Phi); ok {
		hasInit, hasUpd, other := false, false, false
		for _, e := range phiLeaves(phi) {
			switch {
			case strings.HasPrefix(w.Origin(e), "call(os.ReadFile)("):
				hasInit = true
			case e == ssa.Value(repl):
				hasUpd = true
			default:
				other = true
			}
		}
		// last Unmarshal consumes the same accumulated text
		allInstrs(fn, func(in ssa.Instruction) {
			if call, ok := in.(*ssa.Call); ok && call.Common().StaticCallee() != nil && call.Common().StaticCallee().Name() == "Unmarshal" {
				if p2, ok := unwrap(call.Common().Args[0]).(*ssa.Phi); ok && sameLeaves(phiLeaves(p2), phiLeaves(phi)) {
					okCarried = hasInit && hasUpd && !other
				}
			}
		})
	}
	c.Check(okCarried, id, "parsed-text", repl.Pos(), "substitutions accumulate over the file text and the result is what is unmarshalled", "the substituted text is not the accumulated file content that is finally parsed")
}

// phiLeaves: the non-phi values a phi can take, through nested phis and conversions.
func phiLeaves(v ssa.Value) []ssa.Value {
	seen := map[ssa.Value]bool{}
	var out []ssa.Value
	var rec func(v ssa.Value)
	rec = func(v ssa.Value) {
		v = unwrap(v)
		if seen[v] {
			return
		}
		seen[v] = true
		if p, ok := v.(*ssa.Phi); ok {
			for _, e := range p.Edges {
				rec(e)
			}
			return
		}
		out = append(out, v)
	}
	rec(v)
	return out
}

func sameLeaves(a, b []ssa.Value) bool {
	if len(a) != len(b) {
		return false
	}
	m := map[ssa.Value]bool{}
	for _, x := range a {
		m[x] = true
	}
	for _, x := range b {
		if !m[x] {
			return false
		}
	}
	return true
}

// c17env decides the environment overrides of the membership numbers by exhaustive abstract evaluation.
func c17env(c *Ctx, id string, fn *ssa.Function, envFields map[string]string) {
	recv := fn.Params[0].Name()
	type ov struct{ field, env, envSym, emptyAtom, failChoice, atoiAtom string }
	var ovs []ov
	var ints, bools []string
	choices := map[string]int{}
	for _, f := range sortedKeys(envFields) {
		field := recv + strings.TrimPrefix(f, "recv")
		o := ov{field: field, env: envFields[f]}
		o.envSym = "env:" + o.env
		o.emptyAtom = fmt.Sprintf("%s==%q", o.envSym, "")
		o.failChoice = "atoiFails:" + o.env
		o.atoiAtom = "atoi(" + o.envSym + ")"
		ovs = append(ovs, o)
		ints = append(ints, field)
		bools = append(bools, o.emptyAtom)
		choices[o.failChoice] = 2
	}
	// the other fields the step defaults: integers against 0, strings against ""
	allInstrs(fn, func(in ssa.Instruction) {
		b, ok := in.(*ssa.BinOp)
		if !ok || (b.Op != token.EQL && b.Op != token.NEQ) {
			return
		}
		o := c.W.Origin(b.X)
		if !strings.HasPrefix(o, "recv.") {
			return
		}
		name := recv + strings.TrimPrefix(o, "recv")
		for _, x := range ovs {
			if x.field == name {
				return
			}
		}
		switch t := b.X.Type().Underlying().(type) {
		case *types.Basic:
			if t.Info()&types.IsString != 0 {
				bools = append(bools, fmt.Sprintf("%s==%q", name, ""))
			} else if t.Info()&types.IsInteger != 0 {
				ints = append(ints, name)
			}
		}
	})
	envOf := func(name string) *ov {
		for i := range ovs {
			if strings.Contains(name, ovs[i].env) {
				return &ovs[i]
			}
		}
		return nil
	}
	groups := []Group{{Atoms: append(ints, "#0")}}
	h := &Harness{Fn: fn, Groups: groups, Bools: bools, Choices: choices, Quiet: quietLog,
		Oracle: func(st *State, name string, args []AV, res *types.Tuple) ([]AV, bool) {
			switch name {
			case "os.Getenv":
				if s, ok := args[0].(avStr); ok && s.isC {
					if o := envOf(s.conc); o != nil {
						return []AV{avStr{sym: o.envSym}}, true
					}
				}
			case "strconv.Atoi":
				if s, ok := args[0].(avStr); ok && !s.isC {
					for _, o := range ovs {
						if s.sym == o.envSym {
							if st.C(o.failChoice) == 1 {
								return []AV{avInt{}, avIface{sym: "atoiErr"}}, true
							}
							return []AV{avInt{atom: o.atoiAtom}, avIface{isNil: true}}, true
						}
					}
				}
			case "errors.New":
				return []AV{avIface{sym: "configErr"}}, true
			}
			return nil, false
		},
	}
	c.oae(id, "env-semantics@"+fname(fn), fn.Pos(), h, func(st *State, out *Outcome) string {
		wantPanic := false
		for _, o := range ovs {
			if !st.B(o.emptyAtom) && st.C(o.failChoice) == 1 {
				wantPanic = true
			}
		}
		if out.Panicked != wantPanic {
			return fmt.Sprintf("stops the process: %v, expected %v (⇔ a set variable is not an integer)", out.Panicked, wantPanic)
		}
		if wantPanic {
			return ""
		}
		for _, o := range ovs {
			fin := out.Final(o.field)
			switch {
			case !st.B(o.emptyAtom):
				if v, ok := fin.(avInt); !ok || v.atom != o.atoiAtom {
					return fmt.Sprintf("%s ends as %s although %s is set; expected the variable's integer value", o.field, avString(fin), o.env)
				}
			case st.Eq(o.field, "#0"):
				if v, ok := fin.(avInt); !ok || v.atom != "" || v.conc == 0 {
					return fmt.Sprintf("%s ends as %s with nothing configured; expected a non-zero default", o.field, avString(fin))
				}
			default:
				if fin != nil {
					return fmt.Sprintf("%s is overwritten with %s although it is configured and %s is not set", o.field, avString(fin), o.env)
				}
			}
		}
		return ""
	}, "per membership number: variable set ⇒ field = Atoi(variable), or the process stops when it is not an integer; variable unset ⇒ configured value kept, else a non-zero default")
}

func c17r5(c *Ctx, id string) {
	w := c.W
	fn := w.Func("helpers", "ResolveUnionIntOrStringValue")
	conv := w.Func("helpers", "convertSizeUnitToByte")
	c.need(fn != nil && conv != nil && len(fn.Params) == 1, id, "helpers.ResolveUnionIntOrStringValue / convertSizeUnitToByte")
	c.see(fn)
	// evaluated whole over the dynamic type of the value (int, uint, string, anything else) × integer parser succeeds?
	// × unit parser succeeds? — indifferent to whether the cases are a type switch, a chain of assertions or a table of
	// per-type resolvers
	kinds := []string{"int", "uint", "string", "other"}
	inP := fn.Params[0].Name()
	h := &Harness{Fn: fn, Choices: map[string]int{"dyn": len(kinds)}, Bools: []string{"intOK", "unitOK"}, Quiet: quietLog, MaxSteps: 4000,
		NoInline: map[string]bool{fname(conv): true},
		Valid: func(st *State) bool {
			if st.C("dyn") != 2 {
				return st.B("intOK") && st.B("unitOK") // the parsers only matter for strings
			}
			return !(st.B("intOK") && !st.B("unitOK")) // the unit parser is not asked when the integer parser succeeded
		},
		Args: map[string]func(st *State) AV{inP: func(st *State) AV {
			switch st.C("dyn") {
			case 0:
				return avIface{dyn: types.Typ[types.Int], val: avInt{atom: "theInt"}}
			case 1:
				return avIface{dyn: types.Typ[types.Uint], val: avInt{atom: "theUint"}}
			case 2:
				return avIface{dyn: types.Typ[types.String], val: avStr{sym: "theString"}}
			}
			return avIface{dyn: types.Typ[types.Float64], val: avOpaque{"a float"}}
		}},
		Oracle: func(st *State, name string, args []AV, res *types.Tuple) ([]AV, bool) {
			switch name {
			case "strconv.ParseInt":
				if st.B("intOK") {
					return []AV{avInt{atom: "parsed"}, avIface{isNil: true}}, true
				}
				return []AV{avInt{conc: 0}, avIface{sym: "errSyntax"}}, true
			case fname(conv):
				if st.B("unitOK") {
					return []AV{avInt{atom: "inBytes"}, avIface{isNil: true}}, true
				}
				return []AV{avInt{conc: 0}, avIface{sym: "errUnit"}}, true
			}
			return nil, false
		}}
	c.oae(id, "resolver", fn.Pos(), h, func(st *State, out *Outcome) string {
		ints := out.Effects("strconv.ParseInt")
		units := out.Effects(fname(conv))
		ret := ""
		if !out.Panicked && len(out.Ret) == 1 {
			ret = avString(out.Ret[0])
		}
		switch kinds[st.C("dyn")] {
		case "int", "uint":
			want := map[string]string{"int": "theInt", "uint": "theUint"}[kinds[st.C("dyn")]]
			if out.Panicked || len(ints)+len(units) != 0 || !strings.Contains(ret, want) {
				return fmt.Sprintf("an integer does not map to itself: returns %q, panicked %v, parsers called %d times", ret, out.Panicked, len(ints)+len(units))
			}
		case "other":
			if out.Panicked || len(ints)+len(units) != 0 || ret != "0" {
				return fmt.Sprintf("a value that is neither integer nor string: returns %q, panicked %v (expected 0)", ret, out.Panicked)
			}
		case "string":
			if len(ints) != 1 || len(ints[0].Args) != 3 || avString(ints[0].Args[0]) != "theString" || avString(ints[0].Args[1]) != "10" || avString(ints[0].Args[2]) != "64" {
				return "the integer parser is not called once as ParseInt(the configured string, 10, 64): " + out.TraceString()
			}
			if st.B("intOK") {
				if out.Panicked || len(units) != 0 || !strings.Contains(ret, "parsed") {
					return fmt.Sprintf("a plain integer string: returns %q, panicked %v, unit parser called %d times (expected the parsed integer)", ret, out.Panicked, len(units))
				}
				return ""
			}
			if len(units) != 1 || len(units[0].Args) != 1 || avString(units[0].Args[0]) != "theString" {
				return "after the integer parser failed the unit parser is not called once with the configured string itself: " + out.TraceString()
			}
			if st.B("unitOK") {
				if out.Panicked || !strings.Contains(ret, "inBytes") {
					return fmt.Sprintf("a size with a unit: returns %q, panicked %v (expected the unit parser's result)", ret, out.Panicked)
				}
				return ""
			}
			if !out.Panicked {
				return "a string that is neither an integer nor a size with a unit is accepted (returns " + ret + ")"
			}
		}
		return ""
	}, "int/uint → itself; string → ParseInt(s, 10, 64), else the unit parser on s, else fatal; anything else → 0")
}

// c17pattern: the regular expression that finds the placeholders is a constant; its syntax tree decides two necessary
// conditions of "replaced at every occurrence": (a) it is the literal "${", one capture group, the literal "}"; (b) the
// capture can never contain '}' — otherwise two placeholders in one token ("${HOST}:${PORT}") are read as one name that
// no variable has — and (c) it admits every character of a portable environment-variable name ([A-Za-z0-9_]).
func c17pattern(c *Ctx, id string, fn *ssa.Function) {
	w := c.W
	var find *ssa.Call
	allInstrs(fn, func(in ssa.Instruction) {
		if call, ok := in.(*ssa.Call); ok && calleeName(call.Common()) == "(*regexp.Regexp).FindAllStringSubmatch" {
			find = call
		}
	})
	if find == nil {
		c.Undecided(id, "placeholder-pattern", fn.Pos(), "no FindAllStringSubmatch call: the placeholder scan was not recognised")
		return
	}
	compileArg := func(v ssa.Value) (string, bool) {
		call, ok := unwrap(v).(*ssa.Call)
		if !ok {
			return "", false
		}
		if n := calleeName(call.Common()); n != "regexp.MustCompile" && n != "regexp.Compile" && n != "regexp.MustCompilePOSIX" {
			return "", false
		}
		k, ok := unwrap(call.Common().Args[0]).(*ssa.Const)
		if !ok || k.Value == nil || k.Value.Kind() != constant.String {
			return "", false
		}
		return constant.StringVal(k.Value), true
	}
	recv := unwrap(find.Common().Args[0])
	pat, ok := compileArg(recv)
	if !ok {
		// a package-level variable initialised once
		if u, isU := recv.(*ssa.UnOp); isU && u.Op == token.MUL {
			if g, isG := u.X.(*ssa.Global); isG {
				n := 0
				for _, f := range w.ModFuncs {
					allInstrs(f, func(in ssa.Instruction) {
						if st, isSt := in.(*ssa.Store); isSt && st.Addr == ssa.Value(g) {
							n++
							pat, ok = compileArg(st.Val)
						}
					})
				}
				if n != 1 {
					ok = false
				}
			}
		}
	}
	if !ok {
		c.Undecided(id, "placeholder-pattern", find.Pos(), "the placeholder pattern is not a constant compiled once: %s", w.Origin(recv))
		return
	}
	re, err := syntax.Parse(pat, syntax.Perl)
	if err != nil {
		c.Fail(id, "placeholder-pattern", find.Pos(), "pattern %q does not parse: %v", pat, err)
		return
	}
	re = re.Simplify()
	// flatten the top-level concatenation
	var parts []*syntax.Regexp
	if re.Op == syntax.OpConcat {
		parts = re.Sub
	} else {
		parts = []*syntax.Regexp{re}
	}
	lit := func(r *syntax.Regexp) string {
		if r.Op == syntax.OpLiteral && r.Flags&syntax.FoldCase == 0 {
			return string(r.Rune)
		}
		return "\x00"
	}
	shape := len(parts) == 3 && lit(parts[0]) == "${" && parts[1].Op == syntax.OpCapture && lit(parts[2]) == "}"
	if !shape {
		c.Fail(id, "placeholder-pattern", find.Pos(), "pattern %q is not the literal \"${\", one capture group, the literal \"}\" (parsed: %s)", pat, re.String())
		return
	}
	// alphabet of the capture: can it contain r? (over-approximation: union of everything that can match one rune)
	var can func(r *syntax.Regexp, x rune) bool
	can = func(r *syntax.Regexp, x rune) bool {
		switch r.Op {
		case syntax.OpLiteral:
			for _, y := range r.Rune {
				if y == x || (r.Flags&syntax.FoldCase != 0 && unicode.SimpleFold(y) == x) {
					return true
				}
			}
			return false
		case syntax.OpCharClass:
			for i := 0; i+1 < len(r.Rune); i += 2 {
				if r.Rune[i] <= x && x <= r.Rune[i+1] {
					return true
				}
			}
			return false
		case syntax.OpAnyChar:
			return true
		case syntax.OpAnyCharNotNL:
			return x != '\n'
		}
		for _, sub := range r.Sub {
			if can(sub, x) {
				return true
			}
		}
		return false
	}
	// must: every rune of the set is accepted at every position of a non-empty name (decided for the shapes
	// class+, class*, class{n,}, class class*; anything else is left undecided)
	var unit *syntax.Regexp
	body := parts[1].Sub[0]
	switch body.Op {
	case syntax.OpPlus, syntax.OpStar:
		unit = body.Sub[0]
	case syntax.OpRepeat:
		if body.Max == -1 && body.Min <= 1 {
			unit = body.Sub[0]
		}
	case syntax.OpConcat:
		if len(body.Sub) == 2 && (body.Sub[1].Op == syntax.OpStar || body.Sub[1].Op == syntax.OpPlus) {
			first, rest := body.Sub[0], body.Sub[1].Sub[0]
			if first.Op == rest.Op && first.String() == rest.String() {
				unit = first
			}
		}
	}
	closes := can(body, '}')
	admits := unit != nil
	missing := ""
	if unit != nil {
		for _, x := range "ABCXYZabcxyz0189_" {
			if !can(unit, x) {
				admits = false
				missing += string(x)
			}
		}
	}
	switch {
	case closes:
		c.Fail(id, "placeholder-pattern", find.Pos(), "the name part of pattern %q can contain '}': two placeholders in one token (\"${A}:${B}\") are read as the single name \"A}:${B\" and neither is substituted", pat)
	case unit == nil:
		c.Undecided(id, "placeholder-pattern", find.Pos(), "the name part of pattern %q is not a repetition of one character class: which names it admits is not decided", pat)
	case !admits:
		c.Fail(id, "placeholder-pattern", find.Pos(), "the name part of pattern %q rejects %q: placeholders of ordinary variable names are not substituted", pat, missing)
	default:
		c.OK(id, "placeholder-pattern", find.Pos(), "pattern %q = \"${\" (name) \"}\"; the name cannot contain '}' and admits [A-Za-z0-9_] at every position", pat)
	}
}

// lookupOrKeep: v is a call h(m, "key", cur) of a module helper that returns m[key] when the key is present and its
// third argument otherwise, where cur is the current value of the very location being stored to: the constant key.
func lookupOrKeep(w *World, v ssa.Value, dst *ssa.FieldAddr) (string, bool) {
	call, ok := unwrap(v).(*ssa.Call)
	if !ok {
		return "", false
	}
	h := call.Common().StaticCallee()
	args := call.Common().Args
	if h == nil || h.Blocks == nil || !w.inModule(h) || len(args) != 3 || len(h.Params) != 3 {
		return "", false
	}
	if _, isMap := args[0].Type().Underlying().(*types.Map); !isMap {
		return "", false
	}
	cst, isC := args[1].(*ssa.Const)
	if !isC || cst.Value == nil || cst.Value.Kind() != constant.String {
		return "", false
	}
	// the third argument is the current value of the destination
	ld, isLd := unwrap(args[2]).(*ssa.UnOp)
	if !isLd || ld.Op != token.MUL {
		return "", false
	}
	fa2, isFA := ld.X.(*ssa.FieldAddr)
	if !isFA || fa2.X != dst.X || fa2.Field != dst.Field {
		return "", false
	}
	// the helper: every return is m[k]'s value under its presence flag, or the default parameter
	okAll, nLook, nDef := true, 0, 0
	allInstrs(h, func(in ssa.Instruction) {
		r, isR := in.(*ssa.Return)
		if !isR || len(r.Results) != 1 {
			return
		}
		rv := unwrap(r.Results[0])
		if rv == ssa.Value(h.Params[2]) {
			nDef++
			return
		}
		if ex, isEx := rv.(*ssa.Extract); isEx && ex.Index == 0 {
			if lk, isLk := ex.Tuple.(*ssa.Lookup); isLk && lk.CommaOk && unwrap(lk.X) == ssa.Value(h.Params[0]) && unwrap(lk.Index) == ssa.Value(h.Params[1]) {
				if guardedBy(in.Block(), true, func(x ssa.Value) bool {
					e2, is2 := x.(*ssa.Extract)
					return is2 && e2.Tuple == ssa.Value(lk) && e2.Index == 1
				}) {
					nLook++
					return
				}
			}
		}
		okAll = false
	})
	if !okAll || nLook == 0 || nDef == 0 {
		return "", false
	}
	return constant.StringVal(cst.Value), true
}

// lookupAndParse: call is h(m, "key", …) of a module helper that looks m[key] up and reports, as its last result,
// whether the key was present (parsing the value on the way; a parse failure is fatal inside the helper): the key.
func lookupAndParse(w *World, call *ssa.Call) (string, bool) {
	h := call.Common().StaticCallee()
	args := call.Common().Args
	if h == nil || h.Blocks == nil || !w.inModule(h) || len(args) < 2 || len(h.Params) < 2 {
		return "", false
	}
	if _, isMap := args[0].Type().Underlying().(*types.Map); !isMap {
		return "", false
	}
	cst, isC := args[1].(*ssa.Const)
	if !isC || cst.Value == nil || cst.Value.Kind() != constant.String {
		return "", false
	}
	res := h.Signature.Results()
	if res.Len() != 2 {
		return "", false
	}
	if bt, ok := res.At(1).Type().Underlying().(*types.Basic); !ok || bt.Kind() != types.Bool {
		return "", false
	}
	var lk *ssa.Lookup
	allInstrs(h, func(in ssa.Instruction) {
		if l, ok := in.(*ssa.Lookup); ok && l.CommaOk && unwrap(l.X) == ssa.Value(h.Params[0]) && unwrap(l.Index) == ssa.Value(h.Params[1]) {
			lk = l
		}
	})
	if lk == nil {
		return "", false
	}
	present := func(x ssa.Value) bool {
		e2, is2 := x.(*ssa.Extract)
		return is2 && e2.Tuple == ssa.Value(lk) && e2.Index == 1
	}
	okAll, nT, nF := true, 0, 0
	allInstrs(h, func(in ssa.Instruction) {
		r, isR := in.(*ssa.Return)
		if !isR || len(r.Results) != 2 {
			return
		}
		flag, isConst := r.Results[1].(*ssa.Const)
		if !isConst || flag.Value == nil {
			okAll = false
			return
		}
		if flag.Value.String() == "true" {
			nT++
			if !guardedBy(in.Block(), true, present) {
				okAll = false
			}
		} else {
			nF++
			if !guardedBy(in.Block(), false, present) {
				okAll = false
			}
		}
	})
	if !okAll || nT == 0 || nF == 0 {
		return "", false
	}
	return constant.StringVal(cst.Value), true
}

// isLookupOrDefault: h(m, key, def) returns m[key] when the key is present and def otherwise — every return is the
// looked-up value under its presence flag, or the default parameter.
func isLookupOrDefault(w *World, h *ssa.Function) bool {
	if h == nil || h.Blocks == nil || !w.inModule(h) || len(h.Params) != 3 {
		return false
	}
	okAll, nLook, nDef := true, 0, 0
	allInstrs(h, func(in ssa.Instruction) {
		r, isR := in.(*ssa.Return)
		if !isR || len(r.Results) != 1 {
			return
		}
		rv := unwrap(r.Results[0])
		if rv == ssa.Value(h.Params[2]) {
			nDef++
			return
		}
		if ex, isEx := rv.(*ssa.Extract); isEx && ex.Index == 0 {
			if lk, isLk := ex.Tuple.(*ssa.Lookup); isLk && lk.CommaOk && unwrap(lk.X) == ssa.Value(h.Params[0]) && unwrap(lk.Index) == ssa.Value(h.Params[1]) {
				if guardedBy(in.Block(), true, func(x ssa.Value) bool {
					e2, is2 := x.(*ssa.Extract)
					return is2 && e2.Tuple == ssa.Value(lk) && e2.Index == 1
				}) {
					nLook++
					return
				}
			}
		}
		okAll = false
	})
	// nothing else happens in it
	allInstrs(h, func(in ssa.Instruction) {
		switch in.(type) {
		case *ssa.Store, *ssa.MapUpdate, *ssa.Send, *ssa.Go, *ssa.Defer:
			okAll = false
		case *ssa.Call:
			okAll = false
		}
	})
	return okAll && nLook == 1 && nDef >= 1
}
