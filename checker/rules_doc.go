package main

import (
	"fmt"
	"go/types"
	"os"
	"path/filepath"
	"reflect"
	"regexp"
	"strconv"
	"strings"
	"time"

	"golang.org/x/tools/go/ssa"
)

// documentedDefaults (C17): "fills every unset option with its documented default". The documentation is the option
// table of the repository's README.md (`| `key.path` | type | required | default | … |`); the code side is the set of
// zero-guarded stores reachable from ApplyDefaults through unconditionally called steps. For every documented option
// with a non-zero default the store to the field that the key's yaml path denotes must exist and store that value.
// Options whose documented default is realised without a store are listed with the reason.
func documentedDefaults(c *Ctx, id string) {
	w := c.W
	ad := w.Method("config", "Dcp", "ApplyDefaults")
	c.need(ad != nil, id, "config.(*Dcp).ApplyDefaults")
	c.see(ad)
	readme, err := os.ReadFile(filepath.Join(c.W.Repo, "README.md"))
	if err != nil {
		c.Undecided(id, "doc-table", 0, "README.md cannot be read: %v", err)
		return
	}
	row := regexp.MustCompile("(?m)^\\|\\s*`([A-Za-z][A-Za-z0-9.]*)`\\s*\\|([^|]*)\\|([^|]*)\\|([^|]*)\\|")
	type doc struct{ key, typ, def string }
	var docs []doc
	for _, m := range row.FindAllStringSubmatch(string(readme), -1) {
		req := strings.TrimSpace(m[3])
		if req != "yes" && req != "no" {
			continue // (another table)
		}
		docs = append(docs, doc{m[1], strings.TrimSpace(m[2]), strings.TrimSpace(m[4])})
	}
	if len(docs) < 30 {
		c.Undecided(id, "doc-table", 0, "only %d option rows found in README.md (46 on the reference tree; floor 30)", len(docs))
		return
	}
	// the steps ApplyDefaults calls unconditionally
	steps := map[*ssa.Function]bool{}
	var visit func(fn *ssa.Function, depth int)
	visit = func(fn *ssa.Function, depth int) {
		allInstrs(fn, func(in ssa.Instruction) {
			if cc := callOf(in); cc != nil && cc.StaticCallee() != nil && w.inModule(cc.StaticCallee()) && len(guardsOf(in.Block())) == 0 {
				if _, plain := in.(*ssa.Call); plain && !steps[cc.StaticCallee()] && pkgOfFn(cc.StaticCallee()) == pkgOfFn(ad) {
					steps[cc.StaticCallee()] = true
					if depth < 3 {
						visit(cc.StaticCallee(), depth+1)
					}
				}
			}
		})
	}
	steps[ad] = true // (defaults written in ApplyDefaults itself count as well)
	visit(ad, 0)
	// zero-guarded stores of those steps: field path → stored value
	stored := map[string]string{}
	for fn := range steps {
		c.see(fn)
		allInstrs(fn, func(in ssa.Instruction) {
			if call, isCall := in.(*ssa.Call); isCall {
				// a default written through a set-when-unset helper: fn(&c.X, K)
				if h := call.Common().StaticCallee(); h != nil && w.inModule(h) && len(call.Common().Args) == 2 && defaultSetter(w, h) && len(guardsOf(in.Block())) == 0 {
					if target := w.Origin(call.Common().Args[0]); strings.HasPrefix(target, "&recv.") {
						stored[strings.TrimPrefix(target, "&recv.")] = w.Origin(call.Common().Args[1])
					}
				}
				return
			}
			st, ok := in.(*ssa.Store)
			if !ok {
				return
			}
			target := w.Origin(st.Addr)
			if !strings.HasPrefix(target, "&recv.") {
				return
			}
			path := strings.TrimPrefix(target, "&recv.")
			zeros := zeroOrigin(st.Addr.Type().(*types.Pointer).Elem())
			gs := guardsOf(in.Block())
			if len(gs) != 1 {
				return
			}
			v, pol := stripNot(gs[0].Cond, gs[0].Branch)
			b, isB := v.(*ssa.BinOp)
			if !isB || !pol || b.Op.String() != "==" {
				return
			}
			x, y := w.Origin(b.X), w.Origin(b.Y)
			okG := false
			for _, z := range zeros {
				if (x == "recv."+path && y == z) || (y == "recv."+path && x == z) {
					okG = true
				}
			}
			if !okG {
				return
			}
			val := w.Origin(st.Val)
			// a slice literal: the elements stored into its backing array
			if sl, isSl := st.Val.(*ssa.Slice); isSl {
				if al, isAl := sl.X.(*ssa.Alloc); isAl {
					var elems []string
					for _, r := range *al.Referrers() {
						if ia, ok := r.(*ssa.IndexAddr); ok {
							for _, r2 := range *ia.Referrers() {
								if es, ok := r2.(*ssa.Store); ok && es.Addr == ssa.Value(ia) {
									elems = append(elems, w.Origin(es.Val))
								}
							}
						}
					}
					val = "[" + strings.Join(elems, ",") + "]"
				}
			}
			stored[path] = val
		})
	}
	// yaml key path → Go field path
	cfgT := ad.Signature.Recv().Type().(*types.Pointer).Elem()
	resolve := func(key string) (string, types.Type, bool) {
		t := cfgT
		var parts []string
		for _, k := range strings.Split(key, ".") {
			st, ok := t.Underlying().(*types.Struct)
			if !ok {
				return "", nil, false
			}
			found := false
			for i := 0; i < st.NumFields(); i++ {
				tag := reflect.StructTag(st.Tag(i)).Get("yaml")
				if strings.Split(tag, ",")[0] == k {
					parts = append(parts, st.Field(i).Name())
					t = st.Field(i).Type()
					found = true
					break
				}
			}
			if !found {
				return "", nil, false
			}
		}
		return strings.Join(parts, "."), t, true
	}
	// documented defaults that are realised without a store, with the reason
	noStore := map[string]string{
		"dcp.mode":      "every mode but \"finite\" streams infinitely: the unset value already behaves as documented",
		"logging.level": "installed by applyLogging only when no logger was injected (it initialises the logger as a side effect)",
	}
	checked := 0
	for _, d := range docs {
		def := d.def
		if def == "" || def == "-" || def == "false" || strings.HasPrefix(def, "*not set") {
			continue // no documented non-zero default
		}
		construct := "documented-default:" + d.key
		path, ft, ok := resolve(d.key)
		if !ok {
			c.Fail(id, construct, ad.Pos(), "README.md documents option %s (default %s), but no configuration field has that yaml path", d.key, def)
			continue
		}
		if why, isEx := noStore[d.key]; isEx {
			if _, has := stored[path]; !has {
				c.OK(id, construct, ad.Pos(), "documented default %s needs no store: %s", def, why)
				checked++
				continue
			}
		}
		got, has := stored[path]
		if !has {
			if want := docValue(ft, def, ""); want != "" && defaultAtUse(w, cfgT, path, want) {
				c.OK(id, construct, ad.Pos(), "documented default %s is realised where the option is read: every read falls back to %s when the option is unset", def, want)
				checked++
				continue
			}
			c.Fail(id, construct, ad.Pos(), "README.md documents the default %s for %s, but no step called unconditionally by ApplyDefaults stores a default into %s under its own zero test: the option stays unset", def, d.key, path)
			continue
		}
		want := docValue(ft, def, got)
		if want == "" {
			c.Undecided(id, construct, ad.Pos(), "cannot read the documented default %q of %s (%s) as a value of type %s", def, d.key, d.typ, ft.String())
			continue
		}
		checked++
		c.Check(got == want, id, construct, ad.Pos(), fmt.Sprintf("%s ← %s when unset, as documented (%s)", path, got, def), fmt.Sprintf("README.md documents the default %s for %s, the defaulting code stores %s (expected %s)", def, d.key, got, want))
	}
	if checked < 20 {
		c.Undecided(id, "documented-floor", 0, "only %d documented defaults compared (28 on the reference tree; floor 20)", checked)
	}
}

// configPredicates (C15/C02/C12): the predicates the start-up switches on say what the documentation says: the
// checkpoint backend is Couchbase ⇔ metadata.type is "couchbase", a file ⇔ "file"; the stream is finite ⇔ dcp.mode is
// "finite" (README.md names these values). Exhaustive over equal / not equal.
func configPredicates(c *Ctx, id string) {
	w := c.W
	for _, t := range []struct{ method, field, value string }{
		{"IsCouchbaseMetadata", "Metadata.Type", "couchbase"},
		{"IsFileMetadata", "Metadata.Type", "file"},
		{"IsDcpModeFinite", "Dcp.Mode", "finite"},
	} {
		fn := w.Method("config", "Dcp", t.method)
		if fn == nil {
			c.Undecided(id, "predicate:"+t.method, 0, "config.(*Dcp).%s not found", t.method)
			continue
		}
		c.see(fn)
		recv := fn.Params[0].Name()
		atom := fmt.Sprintf("%s.%s==%q", recv, t.field, t.value)
		tt := t
		c.oae(id, "predicate:"+t.method, fn.Pos(), &Harness{Fn: fn, Bools: []string{atom}, Quiet: quietLog}, func(st *State, out *Outcome) string {
			b, ok := out.Ret[0].(avBool)
			if !ok {
				return "the answer does not depend on " + tt.field + " == " + strconv.Quote(tt.value) + " alone: " + avString(out.Ret[0])
			}
			if b.b != st.B(atom) {
				return fmt.Sprintf("%s answers %v when %s == %q is %v", tt.method, b.b, tt.field, tt.value, st.B(atom))
			}
			return ""
		}, fmt.Sprintf("%s ⇔ %s == %q", t.method, t.field, t.value))
	}
}

// overrideParsing (C17): a configured override that cannot be parsed stops the client instead of silently becoming
// zero: in every derived-settings getter of the configuration each parse error reaches a panic along the edges on
// which it can be non-nil; and the file backend's file name is returned ⇔ it is configured and not empty.
func overrideParsing(c *Ctx, id string) {
	w := c.W
	n := 0
	for _, fn := range w.ModFuncs {
		if fn.Parent() != nil || fn.Signature.Recv() == nil || pkgOfFn(fn) == "" || !strings.HasSuffix(pkgOfFn(fn), "/config") || !strings.HasPrefix(fn.Name(), "Get") {
			continue
		}
		c.see(fn)
		allInstrs(fn, func(in ssa.Instruction) {
			call, ok := in.(*ssa.Call)
			if !ok || !hasErrorResult(call.Common()) {
				return
			}
			n++
			ers := errResults(call)
			fatal := false
			if len(ers) > 0 {
				for _, sk := range errorSinks(ers[0]) {
					if sk.Kind == "panic" {
						fatal = true
					}
				}
			}
			construct := fmt.Sprintf("override-parse:%s@%s#%d", calleeName(call.Common()), fn.Name(), nthCallIn(fn, call))
			c.Check(fatal, id, construct, in.Pos(), "a value that cannot be parsed is fatal", "the error of "+calleeName(call.Common())+" does not stop the client on the path on which it is non-nil: an unparsable override silently becomes the zero value")
		})
	}
	if n < 8 {
		c.Undecided(id, "override-parse-floor", 0, "only %d parse steps found in the derived-settings getters (12 on the reference tree; floor 8)", n)
	}
	gf := w.Method("config", "Dcp", "GetFileMetadata")
	if gf == nil {
		c.Undecided(id, "file-name", 0, "config.(*Dcp).GetFileMetadata not found")
		return
	}
	c.see(gf)
	h := &Harness{Fn: gf, Bools: []string{"configured", `fileName==""`}, Quiet: quietLog,
		Valid: func(st *State) bool { return st.B("configured") || !st.B(`fileName==""`) },
		Oracle: func(st *State, name string, args []AV, res *types.Tuple) ([]AV, bool) {
			if strings.HasPrefix(name, "lookup:") {
				if st.B("configured") {
					return []AV{avStr{sym: "fileName"}, avBool{true}}, true
				}
				return []AV{avStr{isC: true}, avBool{false}}, true
			}
			return nil, false
		}}
	c.oae(id, "file-name", gf.Pos(), h, func(st *State, out *Outcome) string {
		ok := st.B("configured") && !st.B(`fileName==""`)
		if ok == out.Panicked {
			return fmt.Sprintf("configured=%v empty=%v: panics=%v", st.B("configured"), st.B(`fileName==""`), out.Panicked)
		}
		if ok && avString(out.Ret[0]) != "fileName" {
			return "returns " + avString(out.Ret[0]) + " instead of the configured file name"
		}
		return ""
	}, "the configured name ⇔ configured and not empty; fatal otherwise")
}

// nthCallIn: the ordinal of call among the calls of the same callee in fn (stable under edits elsewhere).
func nthCallIn(fn *ssa.Function, call *ssa.Call) int {
	n, found := 0, 0
	name := calleeName(call.Common())
	allInstrs(fn, func(in ssa.Instruction) {
		if cl, ok := in.(*ssa.Call); ok && calleeName(cl.Common()) == name {
			n++
			if cl == call {
				found = n
			}
		}
	})
	return found
}

// docValue: the origin term a store of the documented default text would have for a field of type ft ("" when the
// text cannot be read as such a value). got is the stored term (int-or-string options may store the number itself).
func docValue(ft types.Type, def, got string) string {
	switch u := ft.Underlying().(type) {
	case *types.Basic:
		switch {
		case ft.String() == "time.Duration":
			if dur, err := time.ParseDuration(def); err == nil {
				return fmt.Sprintf("const(%d)", int64(dur))
			}
		case u.Info()&types.IsInteger != 0:
			if n, err := strconv.Atoi(def); err == nil {
				return fmt.Sprintf("const(%d)", n)
			}
		case u.Info()&types.IsString != 0:
			return fmt.Sprintf("const(%q)", def)
		}
	case *types.Slice:
		return fmt.Sprintf("[const(%q)]", def)
	case *types.Interface:
		// int-or-string options: the documented text goes through the resolver
		if n, err := strconv.Atoi(def); err == nil && got == fmt.Sprintf("const(%d)", n) {
			return got
		}
		return fmt.Sprintf("call(helpers.ResolveUnionIntOrStringValue)(const(%q))", def)
	}
	return ""
}

// defaultAtUse: the option has no stored default, but every read of its field in the module is of the form
// `x := K; if field > 0 (≠ 0) { x = field }` with K the documented default — the unset option behaves as documented.
func defaultAtUse(w *World, cfgT types.Type, path, want string) bool {
	// the field the path denotes
	t := cfgT
	var field *types.Var
	for _, name := range strings.Split(path, ".") {
		st, ok := t.Underlying().(*types.Struct)
		if !ok {
			return false
		}
		field = nil
		for i := 0; i < st.NumFields(); i++ {
			if st.Field(i).Name() == name {
				field = st.Field(i)
				t = field.Type()
			}
		}
		if field == nil {
			return false
		}
	}
	reads := 0
	ok, tested, merged := true, false, false
	for _, fn := range w.ModFuncs {
		allInstrs(fn, func(in ssa.Instruction) {
			var v ssa.Value
			switch x := in.(type) {
			case *ssa.UnOp:
				if fa, isFA := x.X.(*ssa.FieldAddr); isFA && x.Op.String() == "*" && fieldOfAddr(fa) == field {
					v = x
				}
			case *ssa.Field:
				if st, isSt := x.X.Type().Underlying().(*types.Struct); isSt && st.Field(x.Field) == field {
					v = x
				}
			}
			if v == nil || v.Referrers() == nil {
				return
			}
			reads++
			isZeroTest := func(b *ssa.BinOp, of string) bool {
				k, isK := b.Y.(*ssa.Const)
				return isK && (b.Op.String() == ">" || b.Op.String() == "!=") && w.Origin(k) == "const(0)" && w.Origin(b.X) == of
			}
			me := w.Origin(v)
			for _, r := range *v.Referrers() {
				switch y := r.(type) {
				case *ssa.BinOp:
					if isZeroTest(y, me) {
						tested = true
					} else {
						ok = false
					}
				case *ssa.Phi:
					// taken over only where the option is known to be set, the other edge being the documented default
					set := guardedBy(v.(ssa.Instruction).Block(), true, func(g ssa.Value) bool {
						b, isB := g.(*ssa.BinOp)
						return isB && isZeroTest(b, me)
					})
					other := false
					for _, e := range y.Edges {
						if e != v && w.Origin(e) == want {
							other = true
						}
					}
					if set && other {
						merged = true
					} else {
						ok = false
					}
				case *ssa.DebugRef:
				default:
					ok = false
				}
			}
		})
	}
	return reads > 0 && ok && tested && merged
}

// bucketPredicates (C18/C07): the two facts about the bucket that gate protocol features are read from the fields of
// the server's bucket description that carry them: IsMagma ⇔ the field tagged json:"storageBackend" equals "magma",
// IsEphemeral ⇔ the field tagged json:"bucketType" equals "ephemeral" (the names and values of Couchbase's REST API).
func bucketPredicates(c *Ctx, id string) {
	w := c.W
	bi := w.NamedType("couchbase", "BucketInfo")
	c.need(bi != nil, id, "couchbase.BucketInfo")
	st, _ := bi.Underlying().(*types.Struct)
	c.need(st != nil, id, "couchbase.BucketInfo is a struct")
	fieldByTag := func(tag string) string {
		for i := 0; i < st.NumFields(); i++ {
			if strings.Split(reflect.StructTag(st.Tag(i)).Get("json"), ",")[0] == tag {
				return st.Field(i).Name()
			}
		}
		return ""
	}
	for _, t := range []struct{ method, tag, value string }{
		{"IsMagma", "storageBackend", "magma"},
		{"IsEphemeral", "bucketType", "ephemeral"},
	} {
		fn := w.Method("couchbase", "BucketInfo", t.method)
		field := fieldByTag(t.tag)
		if fn == nil || field == "" {
			c.Undecided(id, "predicate:"+t.method, 0, "couchbase.(*BucketInfo).%s or the field decoded from %q not found", t.method, t.tag)
			continue
		}
		c.see(fn)
		atom := fmt.Sprintf("%s.%s==%q", fn.Params[0].Name(), field, t.value)
		tt := t
		c.oae(id, "predicate:"+t.method, fn.Pos(), &Harness{Fn: fn, Bools: []string{atom}, Quiet: quietLog}, func(st *State, out *Outcome) string {
			b, ok := out.Ret[0].(avBool)
			if !ok {
				return "the answer does not depend on " + tt.tag + " == " + strconv.Quote(tt.value) + " alone: " + avString(out.Ret[0])
			}
			if b.b != st.B(atom) {
				return fmt.Sprintf("%s answers %v when %s == %q is %v", tt.method, b.b, tt.tag, tt.value, st.B(atom))
			}
			return ""
		}, fmt.Sprintf("%s ⇔ %s == %q", t.method, t.tag, t.value))
	}
}

// restStepErrors (C15/C18): the REST client that fetches the server version and the bucket description at start-up
// reports every failure: each fallible call in a method of httpClient (ping, request, decode, version parse) has its
// error reach the method's error result along the edges on which it is non-nil; and a method that returns a nil error
// returns a non-nil object (version / bucket) — (nil, nil) would crash the gates later instead of failing start-up.
func restStepErrors(c *Ctx, id string) {
	w := c.W
	n := 0
	for _, fn := range w.ModFuncs {
		if fn.Parent() != nil || fn.Signature.Recv() == nil || recvTypeName(fn.Signature.Recv().Type()) != "httpClient" || !strings.HasSuffix(pkgOfFn(fn), "/couchbase") {
			continue
		}
		c.see(fn)
		var dropped []string
		allInstrs(fn, func(in ssa.Instruction) {
			call, ok := in.(*ssa.Call)
			if !ok || !hasErrorResult(call.Common()) {
				return
			}
			cn := calleeName(call.Common())
			if strings.HasPrefix(cn, "errors.") || strings.HasPrefix(cn, "fmt.") {
				return
			}
			n++
			ers := errResults(call)
			if len(ers) == 0 || !reported(errorSinks(ers[0])) {
				dropped = append(dropped, cn+" @"+w.pos(in.Pos()))
			}
		})
		c.Check(len(dropped) == 0, id, "rest-errors@"+fn.Name(), fn.Pos(), "every fallible step reports its error", "the error of "+strings.Join(dropped, ", ")+" is lost: start-up goes on without the server's answer")
		// (object, nil) on success: the returns that carry a constant nil error carry a non-nil first result
		res := fn.Signature.Results()
		if res.Len() == 2 {
			bad := ""
			allInstrs(fn, func(in ssa.Instruction) {
				r, ok := in.(*ssa.Return)
				if !ok || len(r.Results) != 2 || deadBlock(in.Block()) {
					return
				}
				if w.Origin(r.Results[1]) == "const(nil)" && w.Origin(r.Results[0]) == "const(nil)" {
					bad = w.pos(in.Pos())
				}
			})
			c.Check(bad == "", id, "rest-result@"+fn.Name(), fn.Pos(), "no return hands out (nil, nil)", "returns neither an object nor an error at "+bad)
		}
	}
	if n < 5 {
		c.Undecided(id, "rest-floor", 0, "only %d fallible steps found in the REST client (5 on the reference tree)", n)
	}
}

// failsWhereItFailed: every fallible call of fn has a consequence exactly where its error is known to be non-nil — a
// panic or a return that carries an error — and no success return there. (The polarity matters: `if err == nil
// { return 0, err' }` compiles, passes tests that only feed valid input, and turns every valid input into a failure.)
func failsWhereItFailed(c *Ctx, id, key string, fn *ssa.Function) int {
	w := c.W
	c.see(fn)
	n := 0
	allInstrs(fn, func(in ssa.Instruction) {
		call, ok := in.(*ssa.Call)
		if !ok || !hasErrorResult(call.Common()) {
			return
		}
		cn := calleeName(call.Common())
		if strings.HasPrefix(cn, "errors.") || strings.HasPrefix(cn, "fmt.") {
			return
		}
		if t := marshalArgType(call.Common()); t != nil && marshalTotal(t, 0) {
			return
		}
		ers := errResults(call)
		if len(ers) == 0 {
			return // (result discarded: judged by the rules on dropped errors)
		}
		n++
		e := ers[0]
		consequence, swallowed := false, false
		allInstrs(fn, func(in2 ssa.Instruction) {
			if deadBlock(in2.Block()) || !errGuard(in2.Block(), false, func(v ssa.Value) bool { return v == e }) {
				return
			}
			if callsNoReturn(in2) {
				consequence = true
			}
			switch x := in2.(type) {
			case *ssa.Panic:
				consequence = true
			case *ssa.Return:
				res := fn.Signature.Results()
				if res.Len() > 0 && types.Identical(res.At(res.Len()-1).Type(), types.Universe.Lookup("error").Type()) {
					if isNilConst(x.Results[len(x.Results)-1]) {
						swallowed = true
					} else {
						consequence = true
					}
				}
			}
		})
		construct := fmt.Sprintf("%s:%s@%s#%d", key, cn, fn.Name(), nthCallIn(fn, call))
		c.Check(consequence && !swallowed, id, construct, in.Pos(), "fails (panic / error return) exactly where "+cn+" failed", fmt.Sprintf("%s's failure has no consequence where it is known to have failed (panic or error return there: %v, success return there: %v) @%s", cn, consequence, swallowed, w.pos(in.Pos())))
	})
	return n
}

// parseFailures (C17): a size string whose number does not parse is an error, and one that is neither an integer nor
// number+unit is fatal.
func parseFailures(c *Ctx, id string) {
	w := c.W
	n := 0
	if f := w.Func("helpers", "convertSizeUnitToByte"); f != nil {
		n += failsWhereItFailed(c, id, "parse", f)
	}
	if conv := w.Func("helpers", "convertSizeUnitToByte"); conv != nil {
		// (ParseInt's failure is the cue to try the unit parser, not an error: only the unit parser's failure is fatal —
		// wherever the resolver, or a per-type resolver of its table, asks the unit parser)
		for _, cs := range w.callersOf(conv) {
			f := cs.Fn
			call, ok := cs.Call.(*ssa.Call)
			if !ok || pkgPathOf(f) != pkgPathOf(conv) {
				continue
			}
			c.see(f)
			n++
			fatal := false
			if ers := errResults(call); len(ers) > 0 {
				e := ers[0]
				allInstrs(f, func(in2 ssa.Instruction) {
					if isPanicLike(in2) && errGuard(in2.Block(), false, func(v ssa.Value) bool { return v == e }) {
						fatal = true
					}
				})
			}
			c.Check(fatal, id, "parse:unit-string-fatal", call.Pos(), "a size string that is neither an integer nor number+unit is fatal", "a size string that cannot be parsed does not stop the client where the unit parser failed")
		}
	}
	if n < 2 {
		c.Undecided(id, "parse-floor", 0, "only %d parse steps found (2 on the reference tree)", n)
	}
}

// identityParse (C10): an identity that cannot be (un)marshalled is fatal on the failing branch — a member never goes on
// with a half-read peer identity.
func identityParse(c *Ctx, id string) {
	w := c.W
	n := 0
	for _, fn := range w.ModFuncs {
		if fn.Parent() == nil && strings.HasSuffix(pkgOfFn(fn), "/models") && (fn.Name() == "NewIdentityFromStr" || (fn.Name() == "String" && fn.Signature.Recv() != nil && recvTypeName(fn.Signature.Recv().Type()) == "Identity")) {
			n += failsWhereItFailed(c, id, "identity", fn)
		}
	}
	if n < 1 {
		c.Undecided(id, "identity-floor", 0, "no identity parse step found")
	}
}

// descriptorNames (C16): a gauge is read by its name. Collect pairs each descriptor *field* with the value it reports
// (C16.R1); this rule closes the other half: the constructor gives the field named X the descriptor whose metric name
// says X. The name is read from the string constants handed to BuildFQName (directly or through a helper); its words,
// apart from the generic suffixes current / total / ms, must spell the field's name (trailing Desc/Metric/Gauge/Counter
// in the field name ignored). Two descriptors swapped in the constructor report each other's values under a wrong name.
func descriptorNames(c *Ctx, id string) {
	w := c.W
	ctor := w.Func("metric", "NewMetricCollector")
	c.need(ctor != nil, id, "metric.NewMetricCollector")
	c.see(ctor)
	word := regexp.MustCompile(`const\("([a-z][a-z0-9_]*)"\)`)
	n := 0
	seenName := map[string]string{}
	allInstrs(ctor, func(in ssa.Instruction) {
		st, ok := in.(*ssa.Store)
		if !ok {
			return
		}
		f := fieldOfAddr(st.Addr)
		if f == nil || !strings.HasSuffix(f.Type().String(), "prometheus.Desc") {
			return
		}
		o := w.Origin(st.Val)
		var parts []string
		for _, m := range word.FindAllStringSubmatch(o, -1) {
			parts = append(parts, m[1])
		}
		// the namespace constant comes first (helpers.Name); the metric's own words are the next two constants
		if len(parts) >= 3 {
			parts = parts[1:3]
		} else if len(parts) == 2 {
			// (a helper that adds the namespace itself)
		} else {
			c.Undecided(id, "descriptor:"+f.Name(), in.Pos(), "cannot read the metric name of %s from %s", f.Name(), o)
			return
		}
		n++
		full := strings.Join(parts, "_")
		field := strings.ToLower(f.Name())
		for _, suf := range []string{"desc", "metric", "gauge", "counter"} {
			if strings.HasSuffix(field, suf) && len(field) > len(suf) {
				field = strings.TrimSuffix(field, suf)
			}
		}
		total, okW := 0, true
		for _, t := range strings.Split(full, "_") {
			if (t == "current" || t == "total" || t == "ms") && !strings.Contains(field, t) {
				continue
			}
			if !strings.Contains(field, t) {
				okW = false
			}
			total += len(t)
		}
		construct := "descriptor:" + f.Name()
		if prev, dup := seenName[full]; dup {
			c.Fail(id, construct, in.Pos(), "the metric name %s is given to two descriptors (%s and %s)", full, prev, f.Name())
			return
		}
		seenName[full] = f.Name()
		c.Check(okW && total == len(field), id, construct, in.Pos(), f.Name()+" ← metric "+full, fmt.Sprintf("descriptor field %s is given the metric name %s: the value Collect reports through %s appears under another quantity's name", f.Name(), full, f.Name()))
	})
	if n < 15 {
		c.Undecided(id, "descriptor-floor", 0, "only %d descriptors read (25 on the reference tree; floor 15)", n)
	}
}
