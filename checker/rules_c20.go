package main

import (
	"fmt"
	"go/constant"
	"go/token"
	"go/types"
	"strings"

	"golang.org/x/tools/go/ssa"
)

func init() {
	register(&Property{
		ID: "C20",
		Explanation: "Decides the asynchronous-call protocol at every call of a gocbcore operation that returns (PendingOp, error) and takes a callback (inventory discovered by type; floor 18): " +
			"(R1) the waiter: the completion signal is buffered, Wait returns the dispatch error unchanged, otherwise selects on ctx.Done (→ op.Cancel) and the signal, and returns ctx.Err() (exhaustive); " +
			"(R2) every callback resolves exactly once before any channel send on every path, sends only on channels created in the enclosing call with capacity ≥ the sends per invocation (a completion arriving after the deadline finds room), and every channel the wrapper receives from after a successful Wait is sent to on every callback path; " +
			"(R3) the outcome is the server's: the callback's error reaches the wrapper's error result (send→receive→return, or captured cell→return), a non-error result is dereferenced only under err==nil (defects F4/F5, repaired); " +
			"(R4) a deadline exists: the operation's own deadline option / parameter is time.Now()+d, or it is taken from a context that is deadline-bearing at every call site (followed through callers), or — for operations without a deadline option — the AsyncOp context is. " +
			"(R7) the duration that bounds an operation is a timeout option: a configuration field used as a period anywhere in the module never appears as a deadline, and Ping's context is bounded by HealthCheck.Timeout. " +
			"NOT decided: what gocbcore does after Cancel; real timing around the deadline.",
		Assumptions: []string{"gocbcore invokes an operation's callback exactly once, synchronously on Cancel", "a zero Deadline means no timeout in gocbcore"},
		Rules: []RuleDef{
			{ID: "C20.R1", Text: "waiter: signal channel buffered; Wait = dispatch error | select{ctx.Done→op.Cancel(), signal} then ctx.Err()", Run: c20r1},
			{ID: "C20.R2", Text: "callbacks: Resolve exactly once and before any send on every path; sends fit the channel capacity; every awaited channel is sent to on every path", Run: c20r2},
			{ID: "C20.R3", Text: "the callback's error reaches the wrapper's error result; results are dereferenced only under err==nil", Run: c20r3},
			{ID: "C20.R24", Text: "what Ping counts as an answer: the endpoint pickers of the Ping callback hand out an entry's address only after seeing its Error nil and its State PingStateOK, and the empty string otherwise (same rule as C19.R12)", Run: endpointsAreHealthy},
			{ID: "C20.R25", Text: "a wrapper is held up by nothing but its operation: in every function that issues an asynchronous gocbcore operation each wait is the operation record own Wait/Resolve or on a channel made by that call for its result — no shared limiter, lock or queue in front of or around the operation (such a wait has no deadline)", Run: wrappersWaitOnlyForTheirOp},
			{ID: "C20.R26", Text: "a refusal or silence is classified by its own error: every read of an errors.As target is reached only through the true result of an errors.As on that target — no classification left over from an earlier error, iteration or call", Run: errorsAsFresh},
			{ID: "C20.R5", Text: "Ping reports success only when both the data and the management service answered: the error handed to the waiter is non-nil ⇔ the operation failed ∨ either endpoint is missing", Run: pingOutcome},
			{ID: "C20.R6", Text: "checkpoint writes are confirmed or reported: every storage primitive's error in the Metadata.Save backends reaches the result (same rule as C05.R5)", Run: c05r5},
			{ID: "C20.R7", Text: "a deadline is a timeout, not a schedule: no configuration option that the module uses as a period (ticker, sleep, timer delay) bounds an operation, and the ping is bounded by HealthCheck.Timeout", Run: c20r7},
			{ID: "C20.R8", Text: "the deadline is the configured one for every call: no component rewrites the shared configuration after defaulting (same rule as C17.R6)", Run: configImmutable},
			{ID: "C20.R9", Text: "the server is asked: in every single-operation wrapper each return is dominated by the call that issues the operation, or carries an error known to be non-nil (no answer from a cache)", Run: opAlwaysIssued},
			{ID: "C20.R10", Text: "no success without confirmation in the checkpoint write ladder (same rule as C05.R15)", Run: upsertLadder},
			{ID: "C20.R11", Text: "no step around an operation loses its error: every fallible call in a wrapper (configuration snapshot, id resolution, dispatch, AsyncOp.Wait, errgroup Wait) has its error reach a return/panic/send along edges on which it can be non-nil; a result channel is read only after Wait succeeded; an errgroup's Wait is reported", Run: wrapperStepErrors},
			{ID: "C20.R12", Text: "every single-operation wrapper evaluated whole over the fate of its operation (completed | refused at dispatch | completed with the server's error and nil results | never completed): returns nil exactly when the operation completed without error, a non-nil error otherwise, never blocks on its result channel, never panics on an absent result", Run: wrapperOutcomes},
			{ID: "C20.R13", Text: "the deadline of a membership operation is this configuration's own timeout: the derived settings are a fresh record per call filled from this configuration's override table (same rule as C17.R2)", Run: c17r2},
			{ID: "C20.R14", Text: "the registration reports success only after a confirmed write: update | update(key not found) → create → create(ok) → update, the last step's error deciding (same rule as C10.R19)", Run: registerLadder},
			{ID: "C20.R15", Text: "the concurrent checkpoint read returns: it waits for exactly its workers and every worker signals on every path (same rule as C02.R14)", Run: workersSignal("couchbase.cbMetadata).Load")},
			{ID: "C20.R16", Text: "no worker blocks for ever on reporting: a channel that goroutines started in a loop send on, and that is read only after waiting for them, has room for every one of them (capacity = length of the list the workers are started over)", Run: workerResultChannels},
			{ID: "C20.R17", Text: "the deadline of an operation is the timeout that was configured: defaulting never rewrites a configured duration — every default store is guarded by the zero test of its own field, no store through a pointer into the configuration (same rule as C17.R1)", Run: c17r1},
			{ID: "C20.R18", Text: "no outcome is invented by swallowing an error: module-wide error discipline (same rule as C15.R26)", Run: errorDiscipline},
			{ID: "C20.R19", Text: "no layer in front of an implementation changes what it answers: every type of the module that implements one of the module's interfaces and holds a value of it (a decorator: read-only metadata today) hands each call on exactly — one inner call with its own arguments on every path, results untouched — except the methods that are opaque by design (frozen table)", Run: decoratorsTransparent()},
			{ID: "C20.R20", Text: "what is installed is what was handed in: nowhere in the module is a collaborator (a value of interface or function type) replaced by a wrapper around it — a function from T to T, or a method value of an object built from it — except the known read-only metadata wrapper", Run: noNewLayers},
			{ID: "C20.R21", Text: "a completion neither blocks nor panics: every integer division or modulo by something other than a non-zero constant runs only where that divisor was tested non-zero (frozen exception: the chunking helper, whose divisor is the group size)", Run: noUnguardedDivision},
			{ID: "C20.R22", Text: "a completion handler does not panic: the channel closes of the module are inside a sync.Once body or among the confirmed ones (frozen table: the stream stop channel)", Run: channelClosesKnown},
			{ID: "C20.R23", Text: "a completion handler does not stall the read loop: the gate of the observer waits for the persistence condition only — no channel receive, lock or other wait", Run: gateWaitsOnlyForPersistence},
			{ID: "C20.R4", Text: "a deadline exists for every operation (own deadline from time.Now, or a deadline-bearing context at every call site)", Run: c20r4},
		},
	})
}

type asyncSite struct {
	Fn       *ssa.Function // function containing the call
	Call     *ssa.Call
	Op       string        // gocbcore method name
	Callback *ssa.Function // closure literal (nil when supplied by the caller)
	CbValue  ssa.Value
}

func isPendingOpErr(res *types.Tuple) bool {
	if res.Len() != 2 {
		return false
	}
	n, ok := types.Unalias(res.At(0).Type()).(*types.Named)
	return ok && n.Obj().Name() == "PendingOp" && types.Identical(res.At(1).Type(), types.Universe.Lookup("error").Type())
}

func asyncSites(w *World) []*asyncSite {
	var out []*asyncSite
	for _, fn := range w.ModFuncs {
		allInstrs(fn, func(in ssa.Instruction) {
			call, ok := in.(*ssa.Call)
			if !ok {
				return
			}
			f := call.Common().StaticCallee()
			if f == nil || f.Pkg == nil || !strings.Contains(f.Pkg.Pkg.Path(), "gocbcore") || !isPendingOpErr(f.Signature.Results()) {
				return
			}
			args := call.Common().Args
			cb := args[len(args)-1]
			if _, isSig := cb.Type().Underlying().(*types.Signature); !isSig {
				return
			}
			out = append(out, &asyncSite{Fn: fn, Call: call, Op: f.Name(), Callback: closureOf(cb), CbValue: cb})
		})
	}
	return out
}

func (s *asyncSite) key() string { return s.Op + "@" + fname(rootFn(s.Fn)) }

// asyncOpOf: the AsyncOp created in the enclosing function (call to NewAsyncOp), nil if none.
func (s *asyncSite) asyncOp() *ssa.Call {
	var out *ssa.Call
	allInstrs(s.Fn, func(in ssa.Instruction) {
		if c, ok := in.(*ssa.Call); ok && isStaticCall(c.Common(), "/couchbase", "", "NewAsyncOp") {
			out = c
		}
	})
	return out
}

func c20r1(c *Ctx, id string) {
	w := c.W
	na := w.Func("couchbase", "NewAsyncOp")
	c.need(na != nil, id, "couchbase.NewAsyncOp")
	c.see(na)
	var mk *ssa.MakeChan
	allInstrs(na, func(in ssa.Instruction) {
		if m, ok := in.(*ssa.MakeChan); ok {
			mk = m
		}
	})
	capOK := false
	if mk != nil {
		if cst, ok := mk.Size.(*ssa.Const); ok && cst.Value != nil {
			if n, ok := constant.Int64Val(cst.Value); ok && n >= 1 {
				capOK = true
			}
		}
	}
	c.Check(capOK, id, "signal-buffered", na.Pos(), "completion signal has capacity ≥ 1", "the completion signal channel is unbuffered: Resolve() blocks when the callback runs synchronously from op.Cancel() at the deadline — every wrapper hangs")
	wait := w.Method("couchbase", "asyncOp", "Wait")
	res := w.Method("couchbase", "asyncOp", "Resolve")
	c.need(wait != nil && res != nil, id, "asyncOp.Wait / Resolve")
	recv, op, errP := wait.Params[0].Name(), wait.Params[1].Name(), wait.Params[2].Name()
	// the completion signal: the channel field of the operation record (whatever it is called)
	sigField := ""
	if at := w.NamedType("couchbase", "asyncOp"); at != nil {
		if st, ok := at.Underlying().(*types.Struct); ok {
			for i := 0; i < st.NumFields(); i++ {
				if _, isCh := st.Field(i).Type().Underlying().(*types.Chan); isCh {
					sigField = st.Field(i).Name()
				}
			}
		}
	}
	c.need(sigField != "", id, "the channel field of asyncOp")
	h := &Harness{Fn: wait, Bools: []string{errP + "==nil"}, Choices: map[string]int{"select@" + fname(wait): 2}}
	c.oae(id, fname(wait), wait.Pos(), h, func(st *State, out *Outcome) string {
		if out.Panicked {
			return "panics"
		}
		var cancels int
		var sel *Effect
		for i, e := range out.Trace {
			if e.Name == op+".Cancel" {
				cancels++
			}
			if strings.HasPrefix(e.Name, "select→") {
				sel = &out.Trace[i]
			}
		}
		if !st.B(errP + "==nil") {
			if avString(out.Ret[0]) != errP || sel != nil || cancels > 0 {
				return "a dispatch error is not returned unchanged and immediately"
			}
			return ""
		}
		if sel == nil || len(sel.Args) != 2 {
			return "does not wait on exactly {ctx.Done(), signal}"
		}
		choice := st.C("select@" + fname(wait))
		// which case is ctx.Done?
		doneIdx := -1
		for i, a := range sel.Args {
			if strings.Contains(avString(a), "Done") {
				doneIdx = i
			}
		}
		sigIdx := 1 - doneIdx
		if doneIdx < 0 || !strings.Contains(avString(sel.Args[sigIdx]), recv+"."+sigField) {
			return "select cases are not ctx.Done() and the completion signal: " + sel.String()
		}
		if (choice == doneIdx) != (cancels == 1) || cancels > 1 {
			return fmt.Sprintf("op.Cancel() called %d times when the %s case fires", cancels, map[bool]string{true: "deadline", false: "completion"}[choice == doneIdx])
		}
		if !strings.Contains(avString(out.Ret[0]), ".Err") {
			return "does not return ctx.Err() after waiting: " + avString(out.Ret[0])
		}
		return ""
	}, "err≠nil → return err; else select{ctx.Done→Cancel, signal}; return ctx.Err()")
	// Resolve only sends on the signal
	okRes := false
	allInstrs(res, func(in ssa.Instruction) {
		if sd, ok := in.(*ssa.Send); ok && strings.HasSuffix(w.Origin(sd.Chan), "."+sigField) {
			okRes = true
		}
	})
	c.Check(okRes, id, "resolve-sends-signal", res.Pos(), "Resolve sends on the signal channel", "Resolve does not signal completion")
}

// chanCap: capacity of the channel value (created by make in fn), -1 if unknown.
func chanCap(v ssa.Value) int64 {
	v = resolveCell(v)
	mk, ok := v.(*ssa.MakeChan)
	if !ok {
		return -1
	}
	cst, ok := mk.Size.(*ssa.Const)
	if !ok || cst.Value == nil {
		return -1
	}
	n, _ := constant.Int64Val(cst.Value)
	return n
}

func c20r2(c *Ctx, id string) {
	w := c.W
	sites := asyncSites(w)
	for _, s := range sites {
		c.see(s.Fn)
		c.CallSites++
		if s.Callback == nil {
			// idiom C: callback supplied by the caller and invoked by hand when dispatch fails
			p, isParam := unwrap(s.CbValue).(*ssa.Parameter)
			byHand := false
			if isParam {
				allInstrs(s.Fn, func(in ssa.Instruction) {
					if cc := callOf(in); cc != nil && cc.Value == ssa.Value(p) {
						ers := errResults(s.Call)
						if len(ers) > 0 && errGuard(in.Block(), false, func(v ssa.Value) bool { return v == ers[0] }) {
							byHand = true
						}
					}
				})
			}
			c.Check(isParam && byHand, id, "callback:"+s.key(), s.Call.Pos(), "caller-supplied callback, invoked by hand with the error when dispatch fails", "callback is neither a literal nor a parameter invoked on dispatch failure")
			continue
		}
		cb := s.Callback
		c.see(cb)
		aop := s.asyncOp()
		ev := func(in ssa.Instruction) (string, *ssa.Function) {
			if sd, ok := in.(*ssa.Send); ok {
				return "S:" + w.Origin(resolveCell(sd.Chan)) + fmt.Sprintf("#%p", resolveCell(sd.Chan)), nil
			}
			if cc := callOf(in); cc != nil && isInvokeOf(cc, "AsyncOp", "Resolve") {
				return "R", nil
			}
			return "", nil
		}
		seqs, complete := pathEvents(cb, ev, 0)
		if !complete || len(seqs) == 0 {
			c.Undecided(id, "callback:"+s.key(), cb.Pos(), "callback paths could not be enumerated")
			continue
		}
		var problems []string
		// channels and their send counts
		chans := map[string]ssa.Value{}
		allInstrs(cb, func(in ssa.Instruction) {
			if sd, ok := in.(*ssa.Send); ok {
				chans["S:"+w.Origin(resolveCell(sd.Chan))+fmt.Sprintf("#%p", resolveCell(sd.Chan))] = sd.Chan
			}
		})
		for _, seq := range seqs {
			evs := strings.Fields(strings.TrimSuffix(seq, " !panic"))
			nR := 0
			count := map[string]int{}
			for _, e := range evs {
				if e == "R" {
					nR++
					continue
				}
				if aop != nil && nR == 0 {
					problems = append(problems, "a channel send precedes Resolve() on path ["+seq+"]")
				}
				count[e]++
			}
			if aop != nil && nR != 1 {
				problems = append(problems, fmt.Sprintf("Resolve() called %d times on path [%s]", nR, seq))
			}
			for ch, v := range chans {
				cp := chanCap(v)
				if cp < 0 {
					problems = append(problems, "sends on a channel not created (with constant capacity) in the enclosing call: "+w.Origin(v))
				} else if int64(count[ch]) > cp {
					problems = append(problems, fmt.Sprintf("%d send(s) on a channel of capacity %d (a completion after the deadline would block gocbcore's read loop)", count[ch], cp))
				}
			}
		}
		// channels awaited by the wrapper
		allInstrs(s.Fn, func(in ssa.Instruction) {
			u, ok := in.(*ssa.UnOp)
			if !ok || u.Op != token.ARROW {
				return
			}
			key := "S:" + w.Origin(resolveCell(u.X)) + fmt.Sprintf("#%p", resolveCell(u.X))
			if _, isMk := resolveCell(u.X).(*ssa.MakeChan); !isMk {
				return
			}
			for _, seq := range seqs {
				if !strings.Contains(" "+seq+" ", " "+key+" ") {
					problems = append(problems, "the wrapper receives from "+w.Origin(u.X)+" but callback path ["+seq+"] never sends on it — the wrapper would hang")
				}
			}
		})
		if aop == nil && len(chans) == 0 {
			problems = append(problems, "callback neither resolves an AsyncOp nor signals a channel")
		}
		if len(problems) == 0 {
			c.OK(id, "callback:"+s.key(), cb.Pos(), "paths %q: resolves once first, sends within capacity, feeds every awaited channel", seqs)
		} else {
			c.Fail(id, "callback:"+s.key(), cb.Pos(), "%s", strings.Join(dedupStr(problems), "; "))
		}
	}
	if len(sites) < 18 {
		c.Undecided(id, "floor", 0, "only %d asynchronous gocbcore call sites found (18 confirmed by hand)", len(sites))
	}
}

// checkOutcomeIsServers: R3 for one site.
func checkOutcomeIsServers(c *Ctx, id string, s *asyncSite) {
	w := c.W
	if s.Callback == nil {
		c.OKTrivial(id, "outcome:"+s.key(), s.Call.Pos(), "callback supplied by the caller (decided at the caller's literal)")
		return
	}
	cb := s.Callback
	var errP *ssa.Parameter
	for _, p := range cb.Params {
		if types.Identical(p.Type(), types.Universe.Lookup("error").Type()) {
			errP = p
		}
	}
	if errP == nil {
		c.Undecided(id, "outcome:"+s.key(), cb.Pos(), "callback has no error parameter")
		return
	}
	// where does the error go?
	sinks := errorSinks(errP)
	reached := false
	how := ""
	for _, sk := range sinks {
		switch sk.Kind {
		case "send":
			ch := resolveCell(sk.In.(*ssa.Send).Chan)
			// the wrapper returns what it receives from that channel
			allInstrs(s.Fn, func(in ssa.Instruction) {
				u, ok := in.(*ssa.UnOp)
				if !ok || u.Op != token.ARROW || resolveCell(u.X) != ch {
					return
				}
				for _, k2 := range errorSinks(u) {
					if k2.Kind == "return" {
						reached = true
						how = "sent on " + w.Origin(ch) + ", received and returned by the wrapper"
					}
				}
			})
			// the channel may be handed to a helper of the module that receives from it and returns what it received
			// (`return awaitDocument(op, docCh, errCh)`), whose result the wrapper returns
			allInstrs(s.Fn, func(in ssa.Instruction) {
				call, ok := in.(*ssa.Call)
				if !ok || reached {
					return
				}
				g := call.Common().StaticCallee()
				if g == nil || g.Blocks == nil || !w.inModule(g) {
					return
				}
				for i, a := range call.Common().Args {
					if i >= len(g.Params) || resolveCell(a) != ch {
						continue
					}
					allInstrs(g, func(x ssa.Instruction) {
						u, isU := x.(*ssa.UnOp)
						if !isU || u.Op != token.ARROW || unwrap(u.X) != ssa.Value(g.Params[i]) {
							return
						}
						for _, k2 := range errorSinks(u) {
							if k2.Kind != "return" {
								continue
							}
							// … and the wrapper returns the helper's error result
							res := g.Signature.Results()
							var outer ssa.Value = call
							if res.Len() > 1 {
								outer = nil
								for _, r3 := range *call.Referrers() {
									if ex, isEx := r3.(*ssa.Extract); isEx && ex.Index == res.Len()-1 {
										outer = ex
									}
								}
							}
							if outer != nil && reported(errorSinks(outer)) {
								reached = true
								how = "sent on " + w.Origin(ch) + ", received by " + fname(g) + " and returned through the wrapper"
							}
						}
					})
				}
			})
		case "return", "panic":
			// a load of the captured cell in the enclosing function that reaches its return
			if sk.In.Parent() != cb {
				reached = true
				how = "stored in a captured variable that the wrapper returns"
			}
		}
	}
	// results dereferenced only under err == nil
	var derefs []string
	for _, p := range cb.Params {
		if p == errP {
			continue
		}
		for _, r := range *p.Referrers() {
			in, ok := r.(ssa.Instruction)
			if !ok {
				continue
			}
			isDeref := false
			switch x := r.(type) {
			case *ssa.FieldAddr:
				isDeref = x.X == ssa.Value(p)
			case *ssa.IndexAddr:
				if x.X == ssa.Value(p) {
					if _, ok := inductionStart(x.Index); !ok {
						isDeref = true
					}
				}
			case *ssa.UnOp:
				isDeref = x.Op == token.MUL && x.X == ssa.Value(p)
			}
			if isDeref && !errGuard(in.Block(), true, func(v ssa.Value) bool { return v == ssa.Value(errP) }) {
				derefs = append(derefs, p.Name()+" @"+w.pos(in.Pos()))
			}
		}
	}
	// on every callback path on which err != nil, the error is forwarded (a forward placed behind an
	// `if err != nil { return }` only ever forwards nil)
	skipped := false
	if reached {
		isForward := func(in ssa.Instruction) bool {
			switch x := in.(type) {
			case *ssa.Send:
				return errCarries(x.X, errP)
			case *ssa.Store:
				if _, isIdx := x.Addr.(*ssa.IndexAddr); isIdx {
					return false // packing the error into the arguments of a log call forwards nothing
				}
				return errCarries(x.Val, errP)
			}
			return false
		}
		skipped = existsErrPathAvoiding(cb, errP, isForward)
	}
	switch {
	case !reached:
		c.Fail(id, "outcome:"+s.key(), cb.Pos(), "the callback's error reaches %s but never the wrapper's result: a failed operation is reported as success", sinkKinds(sinks))
	case skipped:
		c.Fail(id, "outcome:"+s.key(), cb.Pos(), "on a path where err != nil the callback returns without forwarding the error: a failed operation is reported as success")
	case len(derefs) > 0:
		c.Fail(id, "outcome:"+s.key(), cb.Pos(), "the callback dereferences its result without err==nil (gocbcore passes nil on timeout/cancel/shutdown): %s", strings.Join(derefs, ", "))
	default:
		c.OK(id, "outcome:"+s.key(), cb.Pos(), "error %s; results dereferenced only under err==nil", how)
	}
}

func c20r3(c *Ctx, id string) {
	sites := asyncSites(c.W)
	for _, s := range sites {
		c.see(s.Fn)
		checkOutcomeIsServers(c, id, s)
	}
	if len(sites) < 18 {
		c.Undecided(id, "floor", 0, "only %d asynchronous gocbcore call sites found (18 confirmed by hand)", len(sites))
	}
}

// ctxHasDeadline: the context value is deadline-bearing at this point (followed through parameters to all callers).
func ctxHasDeadline(w *World, v ssa.Value, depth int) (bool, string) {
	v = resolveCell(v)
	o := w.Origin(v)
	// the context itself is what context.WithTimeout/WithDeadline returned, or a child (WithValue, WithCancel, …) of
	// one that is — a context some other function hands back "for" it (a span's reference context) is not: whether
	// that still carries the deadline is that function's business, and the no-op tracer returns context.TODO()
	{
		x := unwrap(v)
		if ex, isEx := x.(*ssa.Extract); isEx {
			x = ex.Tuple
		}
		if call, isCall := x.(*ssa.Call); isCall {
			if sf := call.Common().StaticCallee(); sf != nil && pkgPathOf(sf) == "context" {
				switch sf.Name() {
				case "WithTimeout", "WithDeadline", "WithTimeoutCause", "WithDeadlineCause":
					return true, o
				case "WithValue", "WithCancel", "WithCancelCause", "WithoutCancel":
					if sf.Name() != "WithoutCancel" && len(call.Common().Args) > 0 {
						return ctxHasDeadline(w, call.Common().Args[0], depth)
					}
				}
				return false, o
			}
			if sf := call.Common().StaticCallee(); sf != nil && sf.Name() == "WithContext" && strings.HasSuffix(pkgPathOf(sf), "/errgroup") && len(call.Common().Args) > 0 {
				return ctxHasDeadline(w, call.Common().Args[0], depth) // the group's context is a child of the one given
			}
			if sf := call.Common().StaticCallee(); sf != nil && w.inModule(sf) && sf.Blocks != nil && depth > 0 {
				// a module helper that makes the context: every context it returns is deadline-bearing
				idx := 0
				if ex, isEx := unwrap(v).(*ssa.Extract); isEx {
					idx = ex.Index
				}
				all, n := true, 0
				for _, b := range sf.Blocks {
					for _, in := range b.Instrs {
						if r, isR := in.(*ssa.Return); isR && idx < len(r.Results) {
							n++
							rv := r.Results[idx]
							if pr, isP := unwrap(rv).(*ssa.Parameter); isP {
								for k, sp := range sf.Params {
									if sp == pr && k < len(call.Common().Args) {
										if has, _ := ctxHasDeadline(w, call.Common().Args[k], depth-1); !has {
											all = false
										}
									}
								}
								continue
							}
							if has, _ := ctxHasDeadlineLocal(w, rv, depth-1); !has {
								all = false
							}
						}
					}
				}
				if all && n > 0 {
					return true, "deadline-bearing on every return of " + fname(sf)
				}
				return false, o + " (not deadline-bearing on every return of " + fname(sf) + ")"
			}
			return false, o
		}
	}
	p, ok := unwrap(v).(*ssa.Parameter)
	if fv, isFV := unwrap(v).(*ssa.FreeVar); isFV {
		if b, ok2 := bindingOf(fv); ok2 {
			return ctxHasDeadline(w, b, depth)
		}
	}
	if !ok || depth == 0 {
		return false, o
	}
	fn := p.Parent()
	callers := w.callersOf(fn)
	if len(callers) == 0 || len(w.usesAsValue(fn)) > 0 {
		return false, o + " (callers unknown)"
	}
	for _, cs := range callers {
		arg := argOfParam(cs.Call.Common(), fn, p)
		if ok, why := ctxHasDeadline(w, arg, depth-1); !ok {
			return false, why + " at " + fname(cs.Fn)
		}
	}
	return true, "deadline-bearing at all " + fmt.Sprint(len(callers)) + " call sites of " + fname(fn)
}

// ctxHasDeadlineLocal: as ctxHasDeadline, for a value inside a helper — a parameter of the helper is not followed to
// the helper's callers (the caller of ctxHasDeadline does that for the call at hand).
func ctxHasDeadlineLocal(w *World, v ssa.Value, depth int) (bool, string) {
	if _, isP := unwrap(resolveCell(v)).(*ssa.Parameter); isP {
		return false, "parameter"
	}
	return ctxHasDeadline(w, v, depth)
}

func c20r4(c *Ctx, id string) {
	w := c.W
	for _, s := range asyncSites(w) {
		c.see(s.Fn)
		cc := s.Call.Common()
		construct := "deadline:" + s.key()
		// (a) a Deadline field in an options literal or a time.Time parameter
		var dl []ssa.Value
		for _, a := range cc.Args[1:] {
			if al := asAlloc(a); al != nil {
				tab, _ := allocTable(al)
				for k, v := range tab {
					if strings.HasSuffix(k, "Deadline") {
						dl = append(dl, v)
					}
				}
			}
			if n, ok := types.Unalias(a.Type()).(*types.Named); ok && n.Obj().Pkg() != nil && n.Obj().Pkg().Path() == "time" && n.Obj().Name() == "Time" {
				dl = append(dl, a)
			}
		}
		ok, why := false, ""
		if len(dl) > 0 {
			ok = true
			for _, d := range dl {
				o := w.Origin(d)
				switch {
				case strings.Contains(o, "call(time.Now)()") && strings.Contains(o, ".Add)"):
					why += "own deadline " + o + "; "
				case strings.HasSuffix(o, ".Deadline)()#0"):
					// taken from a context: must be deadline-bearing
					var ctxv ssa.Value
					if ex, isEx := unwrap(d).(*ssa.Extract); isEx {
						if call, isCall := ex.Tuple.(*ssa.Call); isCall && call.Common().IsInvoke() {
							ctxv = call.Common().Value
						}
					}
					has, w2 := ctxHasDeadline(w, ctxv, 3)
					if !has {
						ok = false
					}
					why += "deadline from context: " + w2 + "; "
				default:
					ok = false
					why += "deadline ← " + o + "; "
				}
			}
		} else if aop := s.asyncOp(); aop != nil {
			has, w2 := ctxHasDeadline(w, aop.Common().Args[0], 3)
			ok = has
			why = "no deadline option; AsyncOp context: " + w2
		} else {
			why = "no deadline option and no AsyncOp"
		}
		if ok {
			c.OK(id, construct, s.Call.Pos(), "%s", why)
		} else {
			c.Fail(id, construct, s.Call.Pos(), "operation may wait forever when the server stays silent: %s", why)
		}
	}
}

// errCarries: v is the error parameter itself, possibly through phis with other values.
func errCarries(v ssa.Value, errP *ssa.Parameter) bool {
	seen := map[ssa.Value]bool{}
	var rec func(v ssa.Value) bool
	rec = func(v ssa.Value) bool {
		if seen[v] {
			return false
		}
		seen[v] = true
		v = unwrap(v)
		if v == ssa.Value(errP) {
			return true
		}
		if phi, ok := v.(*ssa.Phi); ok {
			for _, e := range phi.Edges {
				if rec(e) {
					return true
				}
			}
		}
		// the result of a helper that is handed the error and hands it back whenever it is non-nil
		// (`err = evaluatePingResult(&r, result, err)`)
		if call, ok := v.(*ssa.Call); ok {
			if g := call.Common().StaticCallee(); g != nil && g.Blocks != nil && curWorld != nil && curWorld.inModule(g) && g.Signature.Results().Len() == 1 {
				for i, a := range call.Common().Args {
					if i < len(g.Params) && rec(a) && preservesErr(g, g.Params[i]) {
						return true
					}
				}
			}
		}
		return false
	}
	return rec(v)
}

// preservesErr: every return of g hands back its error parameter p (possibly among other values of a phi) unless it is
// reached only when p is nil.
func preservesErr(g *ssa.Function, p *ssa.Parameter) bool {
	ok, n := true, 0
	allInstrs(g, func(in ssa.Instruction) {
		r, isR := in.(*ssa.Return)
		if !isR || in.Parent() != g || len(r.Results) != 1 {
			return
		}
		n++
		isP := func(v ssa.Value) bool { return v == ssa.Value(p) }
		res := unwrap(r.Results[0])
		if res == ssa.Value(p) {
			return
		}
		if phi, isPhi := res.(*ssa.Phi); isPhi {
			// every value that is not the parameter itself comes in only from where the parameter is nil
			for i, e := range phi.Edges {
				if errCarriesLocal(e, p) {
					continue
				}
				if i >= len(phi.Block().Preds) || !(errGuard(phi.Block().Preds[i], true, isP) || errGuardEdge(phi.Block().Preds[i], phi.Block(), p)) {
					ok = false
				}
			}
			return
		}
		if !errGuard(in.Block(), true, isP) {
			ok = false
		}
	})
	return ok && n > 0
}

// errGuardEdge: the edge from → to is taken only when p is nil (from ends in the test itself).
func errGuardEdge(from, to *ssa.BasicBlock, p *ssa.Parameter) bool {
	if len(from.Instrs) == 0 {
		return false
	}
	ifi, ok := from.Instrs[len(from.Instrs)-1].(*ssa.If)
	if !ok {
		return false
	}
	for k, s := range from.Succs {
		if s != to {
			continue
		}
		v, pol := stripNot(ifi.Cond, k == 0)
		if eq, isCmp := isNilCompare(v, func(x ssa.Value) bool { return x == ssa.Value(p) }); isCmp && eq == pol {
			return true
		}
	}
	return false
}

func errCarriesLocal(v ssa.Value, p *ssa.Parameter) bool {
	seen := map[ssa.Value]bool{}
	var rec func(v ssa.Value) bool
	rec = func(v ssa.Value) bool {
		if seen[v] {
			return false
		}
		seen[v] = true
		v = unwrap(v)
		if v == ssa.Value(p) {
			return true
		}
		if phi, ok := v.(*ssa.Phi); ok {
			for _, e := range phi.Edges {
				if rec(e) {
					return true
				}
			}
		}
		return false
	}
	return rec(v)
}

// existsErrPathAvoiding: is there an entry→return path of fn, consistent with errP != nil, that executes no forwarding instruction?
func existsErrPathAvoiding(fn *ssa.Function, errP *ssa.Parameter, forward func(ssa.Instruction) bool) bool {
	seen := map[*ssa.BasicBlock]bool{}
	var walk func(b *ssa.BasicBlock) bool
	walk = func(b *ssa.BasicBlock) bool {
		for _, in := range b.Instrs {
			if forward(in) {
				return false
			}
			if _, ok := in.(*ssa.Return); ok {
				return true
			}
		}
		var ifi *ssa.If
		if len(b.Instrs) > 0 {
			ifi, _ = b.Instrs[len(b.Instrs)-1].(*ssa.If)
		}
		for k, s := range b.Succs {
			if ifi != nil {
				v, pol := stripNot(ifi.Cond, k == 0)
				if eq, ok := isNilCompare(v, func(x ssa.Value) bool { return x == ssa.Value(errP) }); ok {
					isNil := eq == pol
					if isNil {
						continue // this edge assumes err == nil
					}
				}
			}
			if seen[s] {
				continue
			}
			seen[s] = true
			if walk(s) {
				return true
			}
		}
		return false
	}
	if len(fn.Blocks) == 0 {
		return false
	}
	seen[fn.Blocks[0]] = true
	return walk(fn.Blocks[0])
}

// pingOutcome evaluates the Ping callback exhaustively over (err nil?, data endpoint found?, management endpoint found?).
func pingOutcome(c *Ctx, id string) {
	w := c.W
	var site *asyncSite
	for _, s := range asyncSites(w) {
		if s.Op == "Ping" {
			site = s
		}
	}
	c.need(site != nil && site.Callback != nil, id, "the Ping call site with a callback literal")
	cb := site.Callback
	var errP *ssa.Parameter
	for _, p := range cb.Params {
		if types.Identical(p.Type(), types.Universe.Lookup("error").Type()) {
			errP = p
		}
	}
	c.need(errP != nil, id, "error parameter of the Ping callback")
	// the endpoint pickers the callback asks, and the service each call asks about
	pickers := map[string]*endpointPicker{}
	noinl := map[string]bool{"couchbase.printLatenciesOfServiceEndpoints": true}
	for _, p := range endpointPickers(w, cb) {
		if p.why != "" {
			c.Undecided(id, "picker@"+fname(p.fn), p.fn.Pos(), "%s", p.why)
			continue
		}
		pickers[fname(p.fn)] = p
		noinl[fname(p.fn)] = true
	}
	memd, okM := gocbConst(w, "MemdService")
	mgmt, okG := gocbConst(w, "MgmtService")
	c.need(okM && okG, id, "gocbcore.MemdService / MgmtService")
	h := &Harness{Fn: cb, Bools: []string{errP.Name() + "==nil", "memdFound", "mgmtFound"}, Quiet: []string{"couchbase.printLatenciesOfServiceEndpoints", "errors.New"},
		NoInline: noinl,
		Args:     map[string]func(st *State) AV{},
		Oracle: func(st *State, name string, args []AV, res *types.Tuple) ([]AV, bool) {
			if p := pickers[name]; p != nil {
				svc := p.svc
				if p.svcParam >= 0 {
					a, isInt := args[p.svcParam].(avInt)
					if !isInt || a.atom != "" {
						return nil, false
					}
					svc = a.conc
				}
				which := ""
				switch svc {
				case memd:
					which = "memdFound"
				case mgmt:
					which = "mgmtFound"
				default:
					return []AV{avStr{isC: true, conc: ""}}, true // a service the property does not speak about: nothing found
				}
				if st.B(which) {
					return []AV{avStr{isC: true, conc: "endpoint-" + which}}, true
				}
				return []AV{avStr{isC: true, conc: ""}}, true
			}
			switch name {
			case "errors.New":
				return []AV{avIface{sym: "unhealthy"}}, true
			}
			if strings.HasSuffix(name, ".Resolve") {
				return nil, true
			}
			return nil, false
		}}
	// the captured result struct starts empty (`var pingResult models.PingResult` in the wrapper): its string fields are ""
	resName := ""
	for _, fv := range cb.FreeVars {
		if pt, ok := fv.Type().(*types.Pointer); ok && recvTypeName(pt.Elem()) == "PingResult" {
			resName = fv.Name()
		}
	}
	h.Input = func(st *State, sym string, t types.Type) AV {
		if resName != "" && strings.HasPrefix(sym, resName+".") {
			if b, ok := t.Underlying().(*types.Basic); ok && b.Info()&types.IsString != 0 {
				return avStr{isC: true, conc: ""}
			}
		}
		return nil
	}
	c.oae(id, "ping-callback@"+fname(cb), cb.Pos(), h, func(st *State, out *Outcome) string {
		if out.Panicked {
			return "panics"
		}
		var sent AV
		n := 0
		for _, e := range out.Trace {
			if strings.HasPrefix(e.Name, "send:") {
				sent = e.Args[0]
				n++
			}
		}
		if n != 1 {
			return fmt.Sprintf("%d sends to the waiter", n)
		}
		i, ok := sent.(avIface)
		if !ok {
			return "outcome not determined: " + avString(sent)
		}
		opFailed := !st.B(errP.Name() + "==nil")
		wantErr := opFailed || !st.B("memdFound") || !st.B("mgmtFound")
		if opFailed {
			wantErr = true // endpoints are only looked up on success
		}
		if wantErr == i.isNil {
			return fmt.Sprintf("reports success=%v, expected success=%v (operation failed: %v, data endpoint: %v, management endpoint: %v)", i.isNil, !wantErr, opFailed, st.B("memdFound"), st.B("mgmtFound"))
		}
		return ""
	}, "error to the waiter is nil ⇔ err==nil ∧ data endpoint found ∧ management endpoint found")
}

// c20r7: "returns by its deadline" presupposes that the deadline is the option meant as one. Two beliefs about one
// configuration field contradict each other when it is used both as a schedule (ticker period, sleep, timer delay) and
// as the bound of an operation: with interval > timeout the call outlives the timeout the operator configured.
func c20r7(c *Ctx, id string) {
	w := c.W
	cfgField := func(v ssa.Value) *types.Var {
		f := loadedField(unwrap(v))
		if f == nil || f.Pkg() == nil || !strings.HasSuffix(f.Pkg().Path(), "/config") {
			return nil
		}
		return f
	}
	type use struct {
		f   *types.Var
		pos token.Pos
		how string
	}
	var periods, deadlines []use
	for _, fn := range w.ModFuncs {
		allInstrs(fn, func(in ssa.Instruction) {
			cc := callOf(in)
			if cc == nil || cc.StaticCallee() == nil {
				return
			}
			n := calleeName(cc)
			var d ssa.Value
			isPeriod := false
			switch n {
			case "time.NewTicker", "time.Sleep", "time.After", "time.Tick", "time.NewTimer":
				d, isPeriod = cc.Args[0], true
			case "time.AfterFunc":
				d, isPeriod = cc.Args[0], true
			case "(*time.Timer).Reset", "(*time.Ticker).Reset":
				d, isPeriod = cc.Args[1], true
			case "context.WithTimeout":
				d = cc.Args[1]
			case "(time.Time).Add":
				if strings.HasPrefix(w.Origin(cc.Args[0]), "call(time.Now)") {
					d = cc.Args[1]
				}
			}
			if d == nil {
				return
			}
			if f := cfgField(d); f != nil {
				u := use{f, in.Pos(), n + " in " + fname(fn)}
				if isPeriod {
					periods = append(periods, u)
				} else {
					deadlines = append(deadlines, u)
				}
			}
		})
	}
	isPeriod := map[*types.Var]string{}
	for _, p := range periods {
		isPeriod[p.f] = p.how
	}
	n := 0
	for _, d := range deadlines {
		n++
		how, clash := isPeriod[d.f]
		c.Check(!clash, id, "timeout-not-period:"+d.f.Name()+"@"+d.how, d.pos, "bounded by "+d.f.Name()+", which the module never uses as a period",
			"the operation is bounded by "+d.f.Name()+", which is a schedule ("+how+"), not a timeout: with the period configured longer than the timeout the call does not return by its deadline")
	}
	if n < 3 || len(periods) < 2 {
		c.Undecided(id, "timeout-not-period", 0, "only %d configuration-derived deadlines and %d configuration-derived periods found (floor 3 / 2)", n, len(periods))
	}
	// the ping
	ping := w.Method("couchbase", "client", "Ping")
	c.need(ping != nil, id, "couchbase.client.Ping")
	c.see(ping)
	ok, got := false, ""
	allInstrs(ping, func(in ssa.Instruction) {
		if cc := callOf(in); cc != nil && calleeName(cc) == "context.WithTimeout" {
			got = w.Origin(cc.Args[1])
			if f := cfgField(cc.Args[1]); f != nil && f.Name() == "Timeout" && strings.HasSuffix(got, "HealthCheck.Timeout") {
				ok = true
			}
		}
	})
	c.Check(ok, id, "ping-deadline", ping.Pos(), "Ping's context is bounded by HealthCheck.Timeout", "Ping's context is bounded by "+got+", expected HealthCheck.Timeout")
}
