package main

// core.go — loading the repository (typed syntax + SSA), the obligation ledger, anchors.
//
// Nothing under the analysed repository is executed: the deciding step of every rule reads
// go/packages' typed syntax trees and go/ssa's intermediate representation of the *current*
// working tree.

import (
	"fmt"
	"go/ast"
	"go/token"
	"go/types"
	"os"
	"sort"
	"strings"

	"golang.org/x/tools/go/callgraph"
	"golang.org/x/tools/go/callgraph/cha"
	"golang.org/x/tools/go/callgraph/vta"
	"golang.org/x/tools/go/packages"
	"golang.org/x/tools/go/ssa"
	"golang.org/x/tools/go/ssa/ssautil"
)

const modPath = "github.com/Trendyol/go-dcp"

// World is the resolved program.
// moduleIfaces: the module's named interface types by name (set by loadWorld).
var moduleIfaces map[string][]*types.Named

type World struct {
	Repo     string
	Fset     *token.FileSet
	Pkgs     map[string]*packages.Package // keyed by path relative to the module ("" = root, "stream", "stream/offset")
	SSA      map[string]*ssa.Package
	Prog     *ssa.Program
	ModFuncs []*ssa.Function // every function with a body that belongs to the module (incl. anonymous, instantiations)
	cg       *callgraph.Graph
	cgCHA    *callgraph.Graph
	funcDecl map[*types.Func]*ast.FuncDecl
	anonLit  map[token.Pos]*ast.FuncLit
	pkgOfPos map[*token.File]*packages.Package
	pwCache  []*ssa.Function // position writers (modes of a split writer included), see positionWriterFuncs
	pwMode   map[*ssa.Function]bool
	pwCore   map[*ssa.Function]*ssa.Function
}

func loadWorld(repo string, overlay map[string][]byte, extraEnv ...string) (*World, error) {
	env := append(os.Environ(), "GOFLAGS=-mod=mod", "GOWORK=off", "GOPROXY=off", "GOSUMDB=off", "GOTOOLCHAIN=local")
	env = append(env, extraEnv...)
	cfg := &packages.Config{
		Mode:    packages.LoadSyntax,
		Dir:     repo,
		Env:     env,
		Overlay: overlay,
		Tests:   false,
	}
	pkgs, err := packages.Load(cfg, "./...")
	if err != nil {
		return nil, fmt.Errorf("packages.Load: %v", err)
	}
	if len(pkgs) == 0 {
		return nil, fmt.Errorf("no packages loaded from %s", repo)
	}
	w := &World{Repo: repo, Pkgs: map[string]*packages.Package{}, SSA: map[string]*ssa.Package{},
		funcDecl: map[*types.Func]*ast.FuncDecl{}, anonLit: map[token.Pos]*ast.FuncLit{}, pkgOfPos: map[*token.File]*packages.Package{}}
	var errs []string
	for _, p := range pkgs {
		for _, e := range p.Errors {
			errs = append(errs, e.Error())
		}
	}
	if len(errs) > 0 {
		return nil, fmt.Errorf("the repository does not type-check:\n  %s", strings.Join(errs, "\n  "))
	}
	w.Fset = pkgs[0].Fset
	prog, spkgs := ssautil.Packages(pkgs, ssa.InstantiateGenerics)
	prog.Build()
	w.Prog = prog
	for i, p := range pkgs {
		if !strings.HasPrefix(p.PkgPath, modPath) {
			continue
		}
		rel := strings.TrimPrefix(strings.TrimPrefix(p.PkgPath, modPath), "/")
		w.Pkgs[rel] = p
		w.SSA[rel] = spkgs[i]
		for _, f := range p.Syntax {
			w.pkgOfPos[w.Fset.File(f.Pos())] = p
			ast.Inspect(f, func(n ast.Node) bool {
				switch n := n.(type) {
				case *ast.FuncDecl:
					if o, ok := p.TypesInfo.Defs[n.Name].(*types.Func); ok {
						w.funcDecl[o] = n
					}
				case *ast.FuncLit:
					w.anonLit[n.Pos()] = n
				}
				return true
			})
		}
	}
	for fn := range ssautil.AllFunctions(prog) {
		if fn.Blocks == nil {
			continue
		}
		if w.inModule(fn) {
			w.ModFuncs = append(w.ModFuncs, fn)
		}
	}
	sort.Slice(w.ModFuncs, func(i, j int) bool {
		a, b := w.ModFuncs[i], w.ModFuncs[j]
		if a.String() != b.String() {
			return a.String() < b.String()
		}
		return a.Pos() < b.Pos()
	})
	if len(w.Pkgs) == 0 {
		return nil, fmt.Errorf("no module packages (%s) among %d loaded packages", modPath, len(pkgs))
	}
	computeNoReturn(w.ModFuncs)
	curWorld = w
	// named interface types of the module, by name (isInvokeOf resolves narrowed views of them)
	moduleIfaces = map[string][]*types.Named{}
	for _, p := range w.Pkgs {
		sc := p.Types.Scope()
		for _, n := range sc.Names() {
			if tn, ok := sc.Lookup(n).(*types.TypeName); ok {
				if nt, ok := tn.Type().(*types.Named); ok {
					if _, isI := nt.Underlying().(*types.Interface); isI {
						moduleIfaces[n] = append(moduleIfaces[n], nt)
					}
				}
			}
		}
	}
	return w, nil
}

func (w *World) inModule(fn *ssa.Function) bool {
	for f := fn; f != nil; f = f.Parent() {
		if f.Pkg != nil {
			return strings.HasPrefix(f.Pkg.Pkg.Path(), modPath)
		}
		if o := f.Origin(); o != nil && o.Pkg != nil {
			return strings.HasPrefix(o.Pkg.Pkg.Path(), modPath)
		}
	}
	return false
}

// CallGraph returns the VTA call graph (seeded by CHA), built lazily.
func (w *World) CallGraph() *callgraph.Graph {
	if w.cg == nil {
		w.cgCHA = cha.CallGraph(w.Prog)
		w.cg = vta.CallGraph(ssautil.AllFunctions(w.Prog), w.cgCHA)
	}
	return w.cg
}

func (w *World) CHA() *callgraph.Graph {
	w.CallGraph()
	return w.cgCHA
}

func (w *World) pos(p token.Pos) string {
	if !p.IsValid() {
		return "-"
	}
	pp := w.Fset.Position(p)
	return fmt.Sprintf("%s:%d", strings.TrimPrefix(pp.Filename, w.Repo+"/"), pp.Line)
}

// ---------------------------------------------------------------------------------------------
// Obligations

type Verdict string

const (
	Discharged Verdict = "discharged"
	Violated   Verdict = "violated"
	Undecided  Verdict = "undecided"
	Known      Verdict = "known-finding"
)

type Obligation struct {
	Key        string  `json:"key"` // rule|construct
	Rule       string  `json:"rule"`
	Text       string  `json:"rule_text,omitempty"`
	Pos        string  `json:"pos"`
	Verdict    Verdict `json:"verdict"`
	Witness    string  `json:"witness,omitempty"`
	States     int     `json:"abstract_states,omitempty"`
	Nontrivial bool    `json:"nontrivial"`
}

type Ctx struct {
	W         *World
	Prop      string
	Tier      string
	Obs       []*Obligation
	keys      map[string]bool
	ruleText  map[string]string
	ruleCount map[string]int
	FuncsSeen map[string]bool
	CallSites int
	States    int
}

func newCtx(w *World, prop, tier string) *Ctx {
	return &Ctx{W: w, Prop: prop, Tier: tier, keys: map[string]bool{}, ruleText: map[string]string{}, ruleCount: map[string]int{}, FuncsSeen: map[string]bool{}}
}

// Rule registers the one-line text of a rule (shown in every report of that rule).
func (c *Ctx) Rule(id, text string) { c.ruleText[id] = text }

func (c *Ctx) add(rule, construct string, pos token.Pos, v Verdict, nontrivial bool, witness string, states int) *Obligation {
	key := rule + "|" + construct
	if c.keys[key] {
		// same construct met twice (e.g. two call sites in one function): number them
		for i := 2; ; i++ {
			k := fmt.Sprintf("%s#%d", key, i)
			if !c.keys[k] {
				key = k
				break
			}
		}
	}
	c.keys[key] = true
	c.ruleCount[rule]++
	o := &Obligation{Key: key, Rule: rule, Text: c.ruleText[rule], Pos: c.W.pos(pos), Verdict: v, Witness: witness, Nontrivial: nontrivial, States: states}
	c.Obs = append(c.Obs, o)
	c.States += states
	return o
}

func (c *Ctx) OK(rule, construct string, pos token.Pos, witness string, a ...any) {
	c.add(rule, construct, pos, Discharged, true, fmt.Sprintf(witness, a...), 0)
}
func (c *Ctx) OKTrivial(rule, construct string, pos token.Pos, witness string, a ...any) {
	c.add(rule, construct, pos, Discharged, false, fmt.Sprintf(witness, a...), 0)
}
func (c *Ctx) OKStates(rule, construct string, pos token.Pos, states int, witness string, a ...any) {
	c.add(rule, construct, pos, Discharged, true, fmt.Sprintf(witness, a...), states)
}
func (c *Ctx) Fail(rule, construct string, pos token.Pos, witness string, a ...any) {
	c.add(rule, construct, pos, Violated, true, fmt.Sprintf(witness, a...), 0)
}
func (c *Ctx) Undecided(rule, construct string, pos token.Pos, why string, a ...any) {
	c.add(rule, construct, pos, Undecided, true, fmt.Sprintf(why, a...), 0)
}

// Check records OK or Fail depending on cond.
func (c *Ctx) Check(cond bool, rule, construct string, pos token.Pos, okw, failw string) {
	if cond {
		c.OK(rule, construct, pos, "%s", okw)
	} else {
		c.Fail(rule, construct, pos, "%s", failw)
	}
}

// Floor asserts that a rule found at least min instances.
func (c *Ctx) Floor(rule string, min int) {
	n := c.ruleCount[rule]
	if n < min {
		c.add(rule, "floor", token.NoPos, Undecided, true,
			fmt.Sprintf("rule matched %d instance(s), at least %d were confirmed by hand on the reference tree — the rule would pass vacuously", n, min), 0)
	}
}

type abortRule struct{ msg string }

// need aborts the current rule with an undecided obligation when an anchor cannot be resolved.
func (c *Ctx) need(ok bool, rule, what string) {
	if !ok {
		c.add(rule, "anchor:"+what, token.NoPos, Undecided, true, "anchor not resolved: "+what, 0)
		panic(abortRule{what})
	}
}

// run executes one rule function, converting abortRule panics into undecided obligations and any
// other panic into an undecided "checker panic" obligation.
func (c *Ctx) run(rule string, f func()) {
	defer func() {
		if r := recover(); r != nil {
			if _, ok := r.(abortRule); ok {
				return
			}
			c.add(rule, "checker-panic", token.NoPos, Undecided, true, fmt.Sprintf("checker panic: %v\n%s", r, shortStack()), 0)
		}
	}()
	f()
}

// ---------------------------------------------------------------------------------------------
// Anchors

func (w *World) pkg(rel string) *packages.Package { return w.Pkgs[rel] }

// NamedType returns the named type rel.name.
func (w *World) NamedType(rel, name string) *types.Named {
	p := w.Pkgs[rel]
	if p == nil {
		return nil
	}
	o := p.Types.Scope().Lookup(name)
	if o == nil {
		return nil
	}
	if tn, ok := o.(*types.TypeName); ok {
		if n, ok := types.Unalias(tn.Type()).(*types.Named); ok {
			return n
		}
	}
	return nil
}

// Func returns the package-level function rel.name.
func (w *World) Func(rel, name string) *ssa.Function {
	sp := w.SSA[rel]
	if sp == nil {
		return nil
	}
	return sp.Func(name)
}

// Method returns the method (value or pointer receiver) name of type rel.typ.
func (w *World) Method(rel, typ, name string) *ssa.Function {
	n := w.NamedType(rel, typ)
	if n == nil {
		return nil
	}
	for _, t := range []types.Type{types.NewPointer(n), n} {
		ms := w.Prog.MethodSets.MethodSet(t)
		if sel := ms.Lookup(n.Obj().Pkg(), name); sel != nil {
			if f := w.Prog.MethodValue(sel); f != nil {
				// the pointer method set of a type with value receivers holds compiler-made wrappers: the declared method
				if f.Synthetic != "" {
					if obj, ok := sel.Obj().(*types.Func); ok {
						if d := w.Prog.FuncValue(obj); d != nil && d.Blocks != nil {
							return d
						}
					}
				}
				return f
			}
		}
	}
	return nil
}

// Field returns the field object typ.name (declared directly in struct typ).
func (w *World) Field(rel, typ, name string) *types.Var {
	n := w.NamedType(rel, typ)
	if n == nil {
		return nil
	}
	st, ok := n.Underlying().(*types.Struct)
	if !ok {
		return nil
	}
	for i := 0; i < st.NumFields(); i++ {
		if st.Field(i).Name() == name {
			return st.Field(i)
		}
	}
	// promoted through a struct embedded by value
	for i := 0; i < st.NumFields(); i++ {
		if f := st.Field(i); embeddedPart(f) {
			es := f.Type().Underlying().(*types.Struct)
			for j := 0; j < es.NumFields(); j++ {
				if es.Field(j).Name() == name {
					return es.Field(j)
				}
			}
		}
	}
	return nil
}

// Decl returns the syntax of a source function (nil for synthetic ones).
func (w *World) Decl(fn *ssa.Function) *ast.FuncDecl {
	if fn == nil {
		return nil
	}
	if o, ok := fn.Object().(*types.Func); ok {
		return w.funcDecl[o]
	}
	if fn.Origin() != nil {
		if o, ok := fn.Origin().Object().(*types.Func); ok {
			return w.funcDecl[o]
		}
	}
	return nil
}

// Info returns the types.Info covering a node position.
func (w *World) Info(p token.Pos) *types.Info {
	if pk := w.pkgOfPos[w.Fset.File(p)]; pk != nil {
		return pk.TypesInfo
	}
	return nil
}

// Lit returns the syntax of an anonymous function.
func (w *World) Lit(fn *ssa.Function) *ast.FuncLit {
	if fl, ok := fn.Syntax().(*ast.FuncLit); ok {
		return fl
	}
	return nil
}

// fname is a stable, human-readable name for a function: pkg.(*T).m, pkg.f, pkg.f$1.
func fname(fn *ssa.Function) string {
	if fn == nil {
		return "<nil>"
	}
	s := fn.String()
	s = strings.ReplaceAll(s, modPath+"/", "")
	s = strings.ReplaceAll(s, modPath+".", "dcp.")
	s = strings.ReplaceAll(s, "("+modPath+")", "dcp")
	return s
}

func shortStack() string {
	buf := make([]byte, 4096)
	n := runtimeStack(buf)
	lines := strings.Split(string(buf[:n]), "\n")
	if len(lines) > 16 {
		lines = lines[:16]
	}
	return strings.Join(lines, "\n")
}

// bound: the size up to which a rule unrolls a collection — wider in the thorough tier.
func (c *Ctx) bound(quick, thorough int) int {
	if c.Tier == "thorough" {
		return thorough
	}
	return quick
}

// curWorld: the program being analysed (for primitives that are plain functions).
var curWorld *World
