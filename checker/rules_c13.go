package main

import (
	"fmt"
	"go/token"
	"go/types"
	"sort"
	"strings"

	"golang.org/x/tools/go/callgraph"
	"golang.org/x/tools/go/ssa"
)

func init() {
	register(&Property{
		ID: "C13",
		Explanation: "Decides the structural conditions of a clean shutdown: (R1) in the client's close path HealthCheck.Stop ≺ Client.Close, Bus.Unsubscribe ≺ Stream.Close, Stream.Close ≺ Client.DcpClose ≺ Client.Close on every path (configuration switches exempt), and the final save precedes the close (C05.R6) under a blocking lock (C05.R7); " +
			"(R2) in Stream.Close the delivery switch (Observer.Close for all) precedes closeAllStreams, which precedes the end switch (Observer.CloseEnd for all), which precedes observers←nil, and the checkpoint schedule and rollback mitigation are stopped; " +
			"(R3) every long-lived goroutine (inventory of `go` bodies containing a loop) exits on a flag, channel, context or listener that a function reachable from the close path clears, signals, cancels or closes; (R4) a running flag is raised by the starter before the `go`, never inside the goroutine (else an early stop is lost); " +
			"(R5) while closed, observers is nil: every use of it that is synchronously reachable from a lifecycle entry point is nil-guarded or follows a fresh assignment — violated today in Stream.Close itself (known finding K2: Close inside the rebalance window). " +
			"NOT decided: 'returns in bounded time' in general; 'no event after Close returned' depends on gocbcore finishing in-flight callbacks.",
		Assumptions: []string{"gocbcore stops invoking a stream's observer after CloseStream was acknowledged", "VTA call graph over-approximates reachability from the close path"},
		Rules: []RuleDef{
			{ID: "C13.R37", Text: "an acknowledgement that arrives after Close does not crash: Close replaces the position map and the dirty marks by fresh maps, never by nil (same rule as C04.R12)", Run: closeResets},
			{ID: "C13.R36", Text: "what was acknowledged before Close is in the final save: the Ack closure moves the position through the position writer of the stream as it is at that moment — marked and flagged on the maps the next save reads, not on maps remembered at delivery (same rules as C05.R11, C05.R1 and C01.R1)", Run: func(c *Ctx, id string) { ackMoves(c, id); absorbMoves(c, id); c05r1(c, id); c01r1(c, id) }},
			{ID: "C13.R35", Text: "a request that timed out returns: the signal channel of the operation record is buffered (a completion after the waiter gave up, or on the waiter own goroutine through Cancel, never blocks) and Wait is dispatch error | select{ctx.Done→Cancel, signal} (same rule as C20.R1)", Run: c20r1},
			{ID: "C13.R1", Text: "teardown order in the client's close path: HealthCheck.Stop ≺ Client.Close; Bus.Unsubscribe ≺ Stream.Close ≺ Client.DcpClose ≺ Client.Close", Run: c13r1},
			{ID: "C13.R2", Text: "Stream.Close: Observer.Close(all) ≺ closeAllStreams ≺ Observer.CloseEnd(all) ≺ observers←nil; StopSchedule and RollbackMitigation.Stop are called", Run: c13r2},
			{ID: "C13.R3", Text: "every background loop has a stop that the close path reaches (flag cleared / channel signalled / context cancelled / listener closed)", Run: c13r3},
			{ID: "C13.R4", Text: "the running flag of a start/stop pair is set by the starter before `go`, and not inside the goroutine", Run: c13r4},
			{ID: "C13.R5", Text: "closed-state safety: every use of stream.observers on a lifecycle path is nil-guarded or follows a fresh assignment in the same function", Run: c13r5},
			{ID: "C13.R7", Text: "delivery switch: the listener is called ⇔ ¬closed, checked after the rollback-mitigation wait (an event parked in the gate when Close runs is released without being delivered)", Run: func(c *Ctx, id string) {
				oi := observerInfo(c, id)
				c03DeliverOAE(c, id, oi)
				gateOAE(c, id, oi, "wait")
			}},
			{ID: "C13.R11", Text: "events racing with the close cannot trip the fail-stop membership check: snapshot announcements are installed whenever the gate passes, also while the delivery switch is off (same rule as C06.R7)", Run: markerInstall},
			{ID: "C13.R34", Text: "a background loop that runs on a flag is stopped under the configuration it was started under: every raise of the flag has a lowering under no further configuration test (a StopSchedule that returns early for the very checkpoint type StartSchedule runs in leaves the schedule saving behind Close)", Run: stopMatchesStart},
			{ID: "C13.R12", Text: "the final save stores every settled position: the dirty set is cleared only after, and only under err==nil of, the store call, and the save is attempted whenever the flag is up (same rules as C05.R3, C05.R4)", Run: func(c *Ctx, id string) { c05r3(c, id); c05r4(c, id) }},
			{ID: "C13.R13", Text: "Close cannot hang on a parked event: the persistence wait is left ⇔ seq ≤ persistSeqNo ∨ closed, so throwing the delivery switch releases a handler that sits in the gate (and with it the connection's reader that the stream-close request needs) (same rule as C07.R2)", Run: c07r2},
			{ID: "C13.R14", Text: "the close loops reach every observer and every position: Range over the wrapper visits all entries (same rule as C04.R9)", Run: wrapperFaithful},
			{ID: "C13.R15", Text: "the close loops reach every observer and stream: every loop over a concurrent map runs to completion: the Range callback returns true on every path (frozen exception: markAbsentInstances stops at the error it returns)", Run: rangeComplete("stream.stream).Close", "stream.stream).closeAllStreams")},
			{ID: "C13.R16", Text: "every position settled before Close is tracked: the position writer stores ⇔ inRange ∧ (¬found ∨ new ≥ cur) and under no condition of the stream's lifecycle state (same rule as C04.R1)", Run: c04r1},
			{ID: "C13.R17", Text: "Close after the client stopped does not crash: no channel field that a method sends on is ever closed", Run: channelNeverClosed},
			{ID: "C13.R18", Text: "every background activity Close stops was started before Close can run (same rule as C19.R5)", Run: healthStartPlain},
			{ID: "C13.R19", Text: "a slow teardown step is not a crash: the HTTP server is shut down with the unbounded Shutdown(), or the error of a deadline variant does not reach panic", Run: boundedTeardownIsNotFatal},
			{ID: "C13.R20", Text: "the session flags: Close records its closeWithCancel argument (before closing streams) in the flag the end listener reads; stops the mitigation ⇔ ¬Disabled and the schedule ⇔ checkpoint≠nil; hands the finish token ⇔ ¬finishedWithEndEvent; open←true ends Open and open←false is stored by Close; Stream.Save is Checkpoint.Save; Open starts the schedule, whose loop saves under Type==auto", Run: sessionFlags},
			{ID: "C13.R21", Text: "fan-out/wait pairs are complete: in the parallel stream close and the open-all step every worker signals Done exactly once on every non-panicking path, Add is sized by the iterated collection and Wait precedes every return", Run: workersSignal("stream.stream).closeAllStreams", "stream.stream).openAllStreams")},
			{ID: "C13.R22", Text: "rollback-mitigation polling is stopped: the stop handshake with the observe loop runs exactly when a loop exists (same rule as C07.R17)", Run: mitigationStopHandshake},
			{ID: "C13.R23", Text: "the client's start and close paths call by call: the stream is opened, the listener subscribed (failure fatal), each optional component started and stopped under exactly its configuration switch (polarity included), Commit is Stream.Save, SetMetadata installs the supplied store, newDcp applies the defaults first and returns every error", Run: clientWiring},
			{ID: "C13.R24", Text: "Close() returns from every lifecycle state, also when called from the listener: it only signals — no WaitGroup wait, receive, lock, sleep or blocking select in Close or what it calls", Run: closeOnlySignals},
			{ID: "C13.R25", Text: "stopping the election does not pull the registry from under the heart-beat loop: leaderElection.Stop makes no call on the service discovery (exhaustive)", Run: leaderStopLeavesRegistry},
			{ID: "C13.R26", Text: "a stopped mitigation stays stopped: the observe ticker field is assigned only where the loop is started (never cleared: reconfigure and Stop read it to know whether a loop runs)", Run: fieldWriters("couchbase", "rollbackMitigation", "observeTimer", "a cleared ticker makes a late cluster-map change start a new observe loop on a stopped mitigation", "rollbackMitigation).startObserve")},
			{ID: "C13.R27", Text: "the serial close, which waits for one end event per CloseStream, is selected only for servers below 5.5: the constructor's gate is version.Lower(5.5.0) and Lower is the exact lexicographic < for all ints (same rules as C18.R1 and C18.R2)", Run: func(c *Ctx, id string) { c18r1(c, id); c18r2(c, id) }},
			{ID: "C13.R28", Text: "the session a background loop belongs to ends before the close touches anything: in Stream.Close the session counter is advanced before the streams are closed and before the position map is emptied", Run: sessionAdvancedFirst},
			{ID: "C13.R29", Text: "the final save and the stream close reach the store and the server themselves: no write-behind, limiting or queueing layer in front of a collaborator that is not a proven pass-through (same rules as C20.R19 and C20.R20)", Run: func(c *Ctx, id string) { decoratorsTransparent()(c, id); noNewLayers(c, id) }},
			{ID: "C13.R30", Text: "shutdown is the decision of the application: the public Close is used by nobody inside the module (same rule as C11.R25)", Run: closeIsEntryPointOnly},
			{ID: "C13.R31", Text: "the close is not held up by a delivery in progress: Observer.Close and Observer.CloseEnd only set their switch — no lock, channel operation or wait", Run: observerSwitchesDoNotWait},
			{ID: "C13.R32", Text: "nothing panics on the way down: channel closes are once by construction or confirmed (same rule as C20.R22)", Run: channelClosesKnown},
			{ID: "C13.R33", Text: "a re-open attempt in flight at Close gives up instead of failing on: the re-open loop evaluated whole, session check after every failed attempt (same rule as C12.R3)", Run: c12r3},
			{ID: "C13.R9", Text: "background waits are cancellable: the health checker blocks only in selects with a ctx.Done() case (same rule as C19.R2)", Run: c19r2},
			{ID: "C13.R10", Text: "a cancel signal closes with closeWithCancel=true: the flag is raised in the branch of the wait that received the signal, before the close path runs, and is what Stream.Close receives", Run: c13r10},
			{ID: "C13.R8", Text: "closeAllStreams closes every assigned vBucket: the serial branch iterates vbIDRange.Start..End inclusive, the parallel branch ranges over every tracked position", Run: closeAllRange},
			{ID: "C13.R6", Text: "final save precedes the close under automatic checkpointing (same rule as C05.R6) and is serialised by a blocking lock (C05.R7)", Run: func(c *Ctx, id string) { c05r6(c, id); c05r7(c, id) }},
		},
	})
}

// mustPrecede: every entry→b path executes a, except through configuration switches.
func mustPrecede(w *World, fn *ssa.Function, a func(ssa.Instruction) bool, b ssa.Instruction) bool {
	// a configuration switch may skip A: the edge of a config test that A itself is control-dependent on, taken the other way
	skip := map[*ssa.If]int{}
	allInstrs(fn, func(in ssa.Instruction) {
		if !a(in) {
			return
		}
		for _, g := range guardsOf(in.Block()) {
			v, _ := stripNotThroughPredicates(g.Cond, true) // the switch may be read through a predicate method
			if strings.Contains(w.Origin(v), ".config.") {
				if g.Branch {
					skip[g.If] = 1
				} else {
					skip[g.If] = 0
				}
			}
		}
	})
	return !existsEntryPathAvoidingEdges(fn, b, a, func(ifi *ssa.If, succ int) bool {
		k, ok := skip[ifi]
		return ok && k == succ
	})
}

func closePaths(w *World) []*ssa.Function {
	var out []*ssa.Function
	for _, fn := range w.ModFuncs {
		has := false
		allInstrs(fn, func(in ssa.Instruction) {
			if cc := callOf(in); cc != nil && isInvokeOf(cc, "Stream", "Close") {
				has = true
			}
		})
		if has {
			out = append(out, fn)
		}
	}
	return out
}

func c13r1(c *Ctx, id string) {
	w := c.W
	cps := closePaths(w)
	c.need(len(cps) > 0, id, "function closing the stream through the Stream interface")
	inv := func(iface, m string) func(ssa.Instruction) bool {
		return func(in ssa.Instruction) bool {
			cc := callOf(in)
			if cc == nil || !cc.IsInvoke() || cc.Method.Name() != m {
				return false
			}
			return strings.HasSuffix(shortType(cc.Value.Type()), iface)
		}
	}
	find := func(fn *ssa.Function, p func(ssa.Instruction) bool) ssa.Instruction {
		var out ssa.Instruction
		allInstrs(fn, func(in ssa.Instruction) {
			if p(in) && out == nil {
				out = in
			}
		})
		return out
	}
	pairs := []struct{ aI, aM, bI, bM string }{
		{"HealthCheck", "Stop", "Client", "Close"},
		{"EventBus.Bus", "Unsubscribe", "Stream", "Close"},
		{"Stream", "Close", "Client", "DcpClose"},
		{"Client", "DcpClose", "Client", "Close"},
	}
	for _, fn := range cps {
		c.see(fn)
		for _, p := range pairs {
			b := find(fn, inv(p.bI, p.bM))
			a := find(fn, inv(p.aI, p.aM))
			construct := fmt.Sprintf("%s.%s≺%s.%s@%s", p.aI, p.aM, p.bI, p.bM, fname(fn))
			if a == nil || b == nil {
				c.Fail(id, construct, fn.Pos(), "close path lacks %s.%s or %s.%s", p.aI, p.aM, p.bI, p.bM)
				continue
			}
			if _, ok := a.(*ssa.Call); !ok {
				c.Fail(id, construct, a.Pos(), "%s.%s is deferred or started with go", p.aI, p.aM)
				continue
			}
			ok := mustPrecede(w, fn, inv(p.aI, p.aM), b)
			c.Check(ok, id, construct, b.Pos(), "on every path", fmt.Sprintf("%s.%s can run before %s.%s", p.bI, p.bM, p.aI, p.aM))
		}
		// the listener unsubscribed is the one that triggers rebalances
		if u := find(fn, inv("EventBus.Bus", "Unsubscribe")); u != nil {
			cc := callOf(u)
			c.Check(w.Origin(cc.Args[0]) == topicConst && w.boundMethodOf(unwrapIface(cc.Args[1])) != nil, id, "unsubscribe-arg@"+fname(fn), u.Pos(), "unsubscribes its own membership listener", "Unsubscribe("+w.Origin(cc.Args[0])+", "+w.Origin(cc.Args[1])+")")
		}
	}
}

func unwrapIface(v ssa.Value) ssa.Value {
	if mi, ok := v.(*ssa.MakeInterface); ok {
		return mi.X
	}
	return v
}

// closesStreams: a module function that (incl. its closures) invokes Client.CloseStream.
func closesStreams(w *World, fn *ssa.Function) bool {
	found := false
	unit := w.syncCallees(fn, 2, true) // the function with its synchronous module-local helpers
	unit[fn] = true
	for g := range unit {
		for _, f := range withAnon(g) {
			allInstrs(f, func(in ssa.Instruction) {
				if cc := callOf(in); cc != nil && isInvokeOf(cc, "Client", "CloseStream") {
					found = true
				}
			})
		}
	}
	return found
}

func c13r2(c *Ctx, id string) {
	w := c.W
	obsField := w.Field("stream", "stream", "observers")
	for _, cl := range w.implsOf("stream", "Stream", "Close") {
		c.see(cl)
		ev := func(in ssa.Instruction) (string, *ssa.Function) {
			if st, ok := in.(*ssa.Store); ok && fieldOfAddr(st.Addr) == obsField && isNilConst(st.Val) {
				return "observers=nil", nil
			}
			cc := callOf(in)
			if cc == nil {
				return "", nil
			}
			if _, f, isRange := w.rangeCall(cc); isRange {
				if f != nil {
					name := ""
					allInstrs(f, func(x ssa.Instruction) {
						if c2 := callOf(x); c2 != nil && c2.IsInvoke() && recvTypeName(c2.Value.Type()) == "Observer" {
							name = "Observer." + c2.Method.Name() + "(all)"
						}
					})
					return strings.ReplaceAll(name, " ", ""), nil
				}
			}
			// `forEachValue(s.observers, couchbase.Observer.Close)`: a method expression applied to every value
			if n := w.forEachApplication(cc); strings.HasPrefix(n, "Observer.") {
				return n + "(all)", nil
			}
			if f := cc.StaticCallee(); f != nil && w.inModule(f) && closesStreams(w, f) {
				return "closeAllStreams", nil
			}
			if isInvokeOf(cc, "Checkpoint", "StopSchedule") {
				return "StopSchedule", nil
			}
			if isInvokeOf(cc, "RollbackMitigation", "Stop") {
				return "MitigationStop", nil
			}
			return "", nil
		}
		seqs, complete := pathEvents(cl, ev, 0)
		ok := complete && len(seqs) > 0
		order := []string{"Observer.Close(all)", "closeAllStreams", "Observer.CloseEnd(all)", "observers=nil"}
		for _, s := range seqs {
			fs := strings.Fields(s)
			pos := map[string]int{}
			for i, e := range fs {
				if _, dup := pos[e]; dup {
					ok = false
				}
				pos[e] = i
			}
			last := -1
			for _, o := range order {
				p, has := pos[o]
				if !has || p < last {
					ok = false
				}
				last = p
			}
		}
		c.Check(ok, id, "switch-order@"+fname(cl), cl.Pos(), fmt.Sprintf("all paths: %q", seqs), fmt.Sprintf("Stream.Close does not keep delivery switch ≺ closeAllStreams ≺ end switch ≺ observers=nil on every path: %q", seqs))
		// StopSchedule / mitigation stop exist, guarded only by their presence switch
		for _, want := range []struct{ ev, guard string }{{"StopSchedule", ".checkpoint != const(nil))"}, {"MitigationStop", ".RollbackMitigation.Disabled"}} {
			var site ssa.Instruction
			allInstrs(cl, func(in ssa.Instruction) {
				if e, _ := ev(in); e == want.ev {
					site = in
				}
			})
			if site == nil {
				c.Fail(id, want.ev+"@"+fname(cl), cl.Pos(), "%s is never called by Stream.Close", want.ev)
				continue
			}
			gs := guardsOf(site.Block())
			okg := len(gs) == 1 && strings.HasSuffix(w.Origin(gs[0].Cond), want.guard)
			c.Check(okg, id, want.ev+"@"+fname(cl), site.Pos(), "called whenever the component exists", fmt.Sprintf("%s is called under %d conditions", want.ev, len(gs)))
		}
	}
}

// reachableFrom: functions reachable in the VTA call graph from the given roots.
func (w *World) reachableFrom(roots ...*ssa.Function) map[*ssa.Function]bool {
	cg := w.CallGraph()
	seen := map[*ssa.Function]bool{}
	var stack []*callgraph.Node
	for _, r := range roots {
		if n := cg.Nodes[r]; n != nil {
			stack = append(stack, n)
		}
	}
	for len(stack) > 0 {
		n := stack[len(stack)-1]
		stack = stack[:len(stack)-1]
		if seen[n.Func] {
			continue
		}
		seen[n.Func] = true
		for _, e := range n.Out {
			stack = append(stack, e.Callee)
		}
		// library functions are loaded without bodies: a function value handed to one (Once.Do, AfterFunc, …) is
		// taken to be called by it
		if n.Func.Blocks != nil {
			allInstrs(n.Func, func(in ssa.Instruction) {
				cc := callOf(in)
				if cc == nil {
					return
				}
				if callee := cc.StaticCallee(); callee != nil && callee.Blocks != nil {
					return
				}
				for _, a := range cc.Args {
					if f := closureOf(a); f != nil {
						if fn := cg.Nodes[f]; fn != nil {
							stack = append(stack, fn)
						}
					}
				}
			})
		}
	}
	return seen
}

func c13r3(c *Ctx, id string) {
	w := c.W
	cps := closePaths(w)
	c.need(len(cps) > 0, id, "close path")
	reach := w.reachableFrom(cps...)
	n := 0
	for _, gl := range goLoops(w) {
		if !gl.HasLoop || gl.Body == nil {
			continue
		}
		n++
		c.see(gl.Body)
		construct := "loop:" + fname(gl.Body)
		var stops []string
		okStop := false
		// (a) flag loops
		for _, fr := range gl.FlagField {
			for _, fn := range w.ModFuncs {
				allInstrs(fn, func(in ssa.Instruction) {
					f, addr, val := flagWrite(in)
					if f == nil || f.Name() != fr.Name || fieldOwner(addr) != fr.Owner || w.Origin(val) != "const(false)" {
						return
					}
					if reach[rootFn(fn)] {
						okStop = true
						stops = append(stops, fr.Owner+"."+fr.Name+"←false in "+fname(fn))
					}
				})
			}
		}
		// (b) select loops: a case on ctx.Done() (cancel reachable) or on a channel field that is sent to / closed
		for _, s := range gl.Selects {
			for _, st := range s.States {
				o := w.Origin(st.Chan)
				if strings.HasSuffix(o, ".Done)()") {
					// context: some reachable function calls a stored cancel func
					for fn := range reach {
						if fn.Blocks == nil || !w.inModule(fn) {
							continue
						}
						for _, f := range withAnon(fn) {
							allInstrs(f, func(in ssa.Instruction) {
								if cc := callOf(in); cc != nil && !cc.IsInvoke() && cc.StaticCallee() == nil && strings.Contains(strings.ToLower(w.Origin(cc.Value)), "cancel") {
									okStop = true
									stops = append(stops, "cancel func called in "+fname(f))
								}
							})
						}
					}
					continue
				}
				if f := loadedField(st.Chan); f != nil {
					for fn := range reach {
						if fn.Blocks == nil || !w.inModule(fn) {
							continue
						}
						allInstrs(fn, func(in ssa.Instruction) {
							if sd, ok := in.(*ssa.Send); ok && loadedField(sd.Chan) == f {
								okStop = true
								stops = append(stops, "send on "+f.Name()+" in "+fname(fn))
							}
						})
					}
				}
			}
		}
		// (c) accept loops: exit on Accept error; the listener is closed by a reachable function
		for _, cond := range gl.ExitConds {
			if strings.Contains(cond, ".Accept)()#1") {
				for fn := range reach {
					if fn.Blocks == nil || !w.inModule(fn) {
						continue
					}
					allInstrs(fn, func(in ssa.Instruction) {
						if cc := callOf(in); cc != nil && cc.IsInvoke() && cc.Method.Name() == "Close" && strings.HasSuffix(shortType(cc.Value.Type()), "net.Listener") {
							okStop = true
							stops = append(stops, "listener closed in "+fname(fn))
						}
					})
				}
			}
		}
		// (d) session loops: the loop body leaves when a counter field no longer equals the value it was started with
		// (an If inside the cycle on field≠captured whose taken edge leaves the loop); some function on the close
		// path changes that counter (atomic Add/Store or a plain store)
		cyc := cycleBlocks(gl.Body)
		allInstrs(gl.Body, func(in ssa.Instruction) {
			ifi, isIf := in.(*ssa.If)
			if !isIf || !cyc[in.Block()] {
				return
			}
			counter := comparedCounter(w, ifi.Cond, 2)
			if counter == nil {
				return
			}
			// the edge taken when the counter moved leaves the cycle
			leaves := false
			for _, succ := range ifi.Block().Succs {
				if !cyc[succ] {
					leaves = true
				}
			}
			if !leaves {
				return
			}
			for fn := range reach {
				if fn.Blocks == nil || !w.inModule(fn) {
					continue
				}
				allInstrs(fn, func(x ssa.Instruction) {
					if cc := callOf(x); cc != nil && strings.Contains(calleeName(cc), "sync/atomic.") && (strings.HasSuffix(calleeName(cc), ".Add") || strings.HasSuffix(calleeName(cc), ".Store")) && len(cc.Args) >= 1 && fieldOfAddr(cc.Args[0]) == counter {
						okStop = true
						stops = append(stops, "session counter "+counter.Name()+" advanced in "+fname(fn))
					}
					if st, isSt := x.(*ssa.Store); isSt && fieldOfAddr(st.Addr) == counter {
						okStop = true
						stops = append(stops, "session counter "+counter.Name()+" written in "+fname(fn))
					}
				})
			}
		})
		if okStop {
			c.OK(id, construct, gl.Go.Pos(), "exits on %v; stop reachable from the close path: %s", gl.ExitConds, strings.Join(dedupStr(stops), "; "))
		} else {
			c.Fail(id, construct, gl.Go.Pos(), "background loop (continues while %v) has no stop that the close path reaches", gl.ExitConds)
		}
	}
	if n < 9 {
		c.Undecided(id, "floor", 0, "only %d background loops found (10 confirmed by hand: checkpoint schedule, config watch, observe loop, health check, 2 membership loops, 2 service-discovery loops, rpc accept loop, the re-open retry loop)", n)
	}
}

func dedupStr(in []string) []string {
	seen := map[string]bool{}
	var out []string
	for _, s := range in {
		if !seen[s] {
			seen[s] = true
			out = append(out, s)
		}
	}
	return out
}

func c13r4(c *Ctx, id string) {
	w := c.W
	n := 0
	for _, gl := range goLoops(w) {
		if !gl.HasLoop || gl.Body == nil || len(gl.FlagField) == 0 {
			continue
		}
		for _, fr := range gl.FlagField {
			n++
			construct := "flag:" + fr.Owner + "." + fr.Name + "@" + fname(gl.Starter)
			before, inside := false, false
			allInstrs(gl.Starter, func(in ssa.Instruction) {
				if f, addr, val := flagWrite(in); f != nil && f.Name() == fr.Name && fieldOwner(addr) == fr.Owner && w.Origin(val) == "const(true)" && dominatesInstr(in, gl.Go) {
					before = true
				}
			})
			for _, f := range withAnon(gl.Body) {
				allInstrs(f, func(in ssa.Instruction) {
					if fl, addr, val := flagWrite(in); fl != nil && fl.Name() == fr.Name && fieldOwner(addr) == fr.Owner && w.Origin(val) == "const(true)" {
						inside = true
					}
				})
			}
			switch {
			case inside:
				c.Fail(id, construct, gl.Go.Pos(), "the running flag is set inside the goroutine: a stop issued before the goroutine is scheduled is overwritten and the loop never ends")
			case !before:
				c.Fail(id, construct, gl.Go.Pos(), "the starter does not set the running flag before `go`")
			default:
				c.OK(id, construct, gl.Go.Pos(), "flag raised by the starter before the goroutine starts")
			}
		}
	}
	if n < 6 {
		c.Undecided(id, "floor", 0, "only %d flag-controlled loops found (6 confirmed by hand)", n)
	}
}

func c13r5(c *Ctx, id string) {
	w := c.W
	f := w.Field("stream", "stream", "observers")
	c.need(f != nil, id, "stream.observers")
	// the field is nil while closed
	nilled := false
	for _, fs := range w.fieldStores(f) {
		if isNilConst(fs.Store.Val) {
			nilled = true
		}
	}
	c.need(nilled, id, "a store observers←nil")
	// lifecycle entry points that can run while the stream is closed, and what they call synchronously
	entries := map[string]bool{"Close": true, "Rebalance": true, "dispatchPersistSeqNo": true, "GetObservers": true, "Save": true, "GetOffsets": true, "IsOpen": true, "GetMetric": true, "UnmarkDirtyOffsets": true}
	n := 0
	for _, fn := range w.ModFuncs {
		root := rootFn(fn)
		if root.Signature.Recv() == nil || recvTypeName(root.Signature.Recv().Type()) != "stream" || !entries[root.Name()] {
			continue
		}
		allInstrs(fn, func(in ssa.Instruction) {
			cc := callOf(in)
			if cc == nil {
				return
			}
			m, recv := csmapMethod(cc)
			if m == "" {
				// the map handed to an iteration helper of the module that uses it (`forEachValue(s.observers, …)`)
				if g := cc.StaticCallee(); g != nil && g.Blocks != nil && w.inModule(g) && !cc.IsInvoke() {
					for i, a := range cc.Args {
						if i >= len(g.Params) || !derefsTo(a, f) {
							continue
						}
						allInstrs(g, func(x ssa.Instruction) {
							if c2 := callOf(x); c2 != nil {
								if m2, r2 := csmapMethod(c2); m2 != "" && unwrap(r2) == ssa.Value(g.Params[i]) {
									m, recv = m2, a
								}
							}
						})
					}
				}
			}
			if m == "" || !derefsTo(recv, f) {
				return
			}
			n++
			c.see(fn)
			key := "stream.observers|" + siteRole(w, root)
			guarded := guardedBy(in.Block(), false, func(v ssa.Value) bool {
				eq, ok := isNilCompare(v, func(x ssa.Value) bool { return derefsTo(x, f) })
				return ok && eq
			}) || guardedBy(in.Block(), true, func(v ssa.Value) bool {
				eq, ok := isNilCompare(v, func(x ssa.Value) bool { return derefsTo(x, f) })
				return ok && !eq
			})
			fresh := false
			allInstrs(fn, func(x ssa.Instruction) {
				if st, ok := x.(*ssa.Store); ok && fieldOfAddr(st.Addr) == f && freshMap(st.Val) && dominatesInstr(st, in) {
					fresh = true
				}
			})
			if guarded || fresh {
				c.OK(id, key, in.Pos(), "use of observers.%s is nil-guarded / follows a fresh assignment", m)
			} else {
				c.Fail(id, key, in.Pos(), "observers.%s is used without a nil guard in %s, which can run while the stream is closed (Close re-entered in the rebalance window: nil dereference / second RollbackMitigation.Stop)", m, fname(root))
			}
		})
	}
	// users through the accessor
	for _, fn := range w.ModFuncs {
		allInstrs(fn, func(in ssa.Instruction) {
			cc := callOf(in)
			if cc == nil || !isInvokeOf(cc, "Stream", "GetObservers") {
				return
			}
			n++
			c.see(fn)
			call, _ := in.(*ssa.Call)
			okAll := call != nil
			if call != nil {
				for _, r := range *call.Referrers() {
					ci, isCall := r.(ssa.CallInstruction)
					if !isCall {
						continue
					}
					if mm, _ := csmapMethod(ci.Common()); mm == "" {
						continue
					}
					g := guardedBy(ci.Block(), false, func(v ssa.Value) bool {
						eq, ok := isNilCompare(v, func(x ssa.Value) bool { return x == ssa.Value(call) })
						return ok && eq
					}) || guardedBy(ci.Block(), true, func(v ssa.Value) bool {
						eq, ok := isNilCompare(v, func(x ssa.Value) bool { return x == ssa.Value(call) })
						return ok && !eq
					})
					if !g {
						okAll = false
					}
				}
			}
			c.Check(okAll, id, "GetObservers@"+fname(fn), in.Pos(), "result used only under a nil check", "the result of GetObservers() is used without a nil check (nil while the stream is closed)")
		})
	}
	if n < 4 {
		c.Undecided(id, "floor", 0, "only %d uses of observers on lifecycle paths found", n)
	}
}

// closeAllRange: both branches of the function that closes the streams cover every assigned vBucket.
func closeAllRange(c *Ctx, id string) {
	w := c.W
	n := 0
	for _, fn := range w.ModFuncs {
		if fn.Parent() != nil || !closesStreams(w, fn) || fn.Signature.Recv() == nil || recvTypeName(fn.Signature.Recv().Type()) != "stream" {
			continue
		}
		if isGoWorker(w, fn) {
			continue // judged as part of the function that spawns it
		}
		// only the function that contains the calls itself or in its direct closures
		direct := false
		for _, f := range withWorkers(fn) {
			allInstrs(f, func(in ssa.Instruction) {
				if cc := callOf(in); cc != nil && isInvokeOf(cc, "Client", "CloseStream") {
					direct = true
				}
			})
		}
		if !direct {
			continue
		}
		c.see(fn)
		for _, f := range withWorkers(fn) {
			allInstrs(f, func(in ssa.Instruction) {
				cc := callOf(in)
				if cc == nil || !isInvokeOf(cc, "Client", "CloseStream") {
					return
				}
				n++
				arg := cc.Args[0]
				ao := w.Origin(arg)
				if f != fn {
					// parallel branch: the closure is spawned per entry of a Range over the tracked positions
					ok := strings.HasPrefix(ao, "param(")
					var rng bool
					allInstrs(fn, func(x ssa.Instruction) {
						if c2 := callOf(x); c2 != nil {
							if recv, _, isRange := w.rangeCall(c2); isRange && w.isOffsetMap(recv.Type()) && len(guardsOf(x.Block())) <= 1 {
								rng = true
							}
						}
					})
					c.Check(ok && rng, id, "close-range:parallel@"+fname(fn), in.Pos(), "one CloseStream per tracked position", "the parallel close does not cover every tracked position")
					closeAllWait(c, id, fn)
					return
				}
				// serial branch: induction from Start, guard <= End
				phi, isPhi := unwrap(arg).(*ssa.Phi)
				okInit, okStep := false, false
				if isPhi {
					for _, e := range phi.Edges {
						if strings.HasSuffix(w.Origin(e), ".vbIDRange.Start") {
							okInit = true
						}
						if b, ok := e.(*ssa.BinOp); ok && b.Op == token.ADD && b.X == ssa.Value(phi) && w.Origin(b.Y) == "const(1)" {
							okStep = true
						}
					}
				}
				okBound := guardedBy(in.Block(), true, func(v ssa.Value) bool {
					b, ok := v.(*ssa.BinOp)
					if !ok {
						return false
					}
					x, y := w.Origin(b.X), w.Origin(b.Y)
					return (b.Op == token.LEQ && b.X == ssa.Value(phi) && strings.HasSuffix(y, ".vbIDRange.End")) || (b.Op == token.GEQ && b.Y == ssa.Value(phi) && strings.HasSuffix(x, ".vbIDRange.End"))
				})
				c.Check(okInit && okStep && okBound, id, "close-range:serial@"+fname(fn), in.Pos(), "closes vbID = Start, Start+1, … while vbID ≤ End (End inclusive, as In and Open define it)",
					fmt.Sprintf("the serial close loop does not run from Start to End inclusive (from Start: %v, step 1: %v, while ≤ End: %v): the last assigned vBucket's stream would stay open across a rebalance", okInit, okStep, okBound))
			})
		}
	}
	if n < 2 {
		c.Undecided(id, "close-range", 0, "only %d CloseStream call sites found in the stream-closing function", n)
	}
}

func c13r10(c *Ctx, id string) {
	w := c.W
	var start *ssa.Function
	for _, fn := range w.ModFuncs {
		if fname(fn) == "(*dcp.dcp).Start" {
			start = fn
		}
	}
	c.need(start != nil, id, "(*dcp.dcp).Start")
	c.see(start)
	var sel *ssa.Select
	allInstrs(start, func(in ssa.Instruction) {
		if s, ok := in.(*ssa.Select); ok {
			sel = s
		}
	})
	if sel == nil {
		c.Fail(id, "wait", start.Pos(), "Start does not wait for a stop or cancel signal in a select")
		return
	}
	cancelIdx := -1
	for i, st := range sel.States {
		if strings.HasSuffix(w.Origin(st.Chan), ".cancelCh") {
			cancelIdx = i
		}
	}
	if cancelIdx < 0 {
		c.Fail(id, "wait", sel.Pos(), "the wait does not listen on the cancel channel")
		return
	}
	// the close call
	var closeCall ssa.Instruction
	allInstrs(start, func(in ssa.Instruction) {
		if cc := callOf(in); cc != nil && cc.StaticCallee() != nil && cc.StaticCallee().Name() == "close" && w.inModule(cc.StaticCallee()) {
			closeCall = in
		}
	})
	// store closeWithCancel ← true in the cancel branch
	ok := false
	allInstrs(start, func(in ssa.Instruction) {
		// a plain bool field or an atomic.Bool
		ff, _, fval := flagWrite(in)
		if ff == nil || ff.Name() != "closeWithCancel" || w.Origin(fval) != "const(true)" {
			return
		}
		inBranch := false
		for _, g := range guardsOf(in.Block()) {
			b, isB := g.Cond.(*ssa.BinOp)
			if !isB || b.Op != token.EQL {
				continue
			}
			ex, isEx := b.X.(*ssa.Extract)
			if !isEx || ex.Tuple != ssa.Value(sel) || ex.Index != 0 {
				continue
			}
			k := w.Origin(b.Y)
			if (g.Branch && k == fmt.Sprintf("const(%d)", cancelIdx)) || (!g.Branch && len(sel.States) == 2 && k == fmt.Sprintf("const(%d)", 1-cancelIdx)) {
				inBranch = true
			}
		}
		// all paths from the store reach the close call
		reaches := closeCall != nil && !existsPathAvoiding(in, func(x ssa.Instruction) bool { return x == closeCall }, true)
		if inBranch && reaches {
			ok = true
		}
	})
	c.Check(ok, id, "cancel-flag@"+fname(start), sel.Pos(), "the cancel branch raises closeWithCancel before closing", "a cancel signal (SIGTERM) does not raise closeWithCancel before the close path runs: stream ends during shutdown would be reopened")
	// no other writer raises it; Stream.Close receives the field
	for _, fn := range w.ModFuncs {
		allInstrs(fn, func(in ssa.Instruction) {
			if cc := callOf(in); cc != nil && isInvokeOf(cc, "Stream", "Close") && rootFn(fn).Pkg != nil && rootFn(fn).Pkg.Pkg.Path() == modPath {
				got := w.Origin(cc.Args[0])
				isFlag := strings.HasSuffix(got, ".closeWithCancel")
				if ff, _ := flagRead(unwrap(cc.Args[0])); ff != nil && ff.Name() == "closeWithCancel" {
					isFlag = true
				}
				c.Check(isFlag, id, "cancel-arg@"+fname(fn), in.Pos(), "Stream.Close("+got+")", "Stream.Close receives "+got+" instead of the cancel flag")
			}
		})
	}
}

// closeAllWait: the parallel close waits for exactly the goroutines it spawns — the WaitGroup is sized by the number of
// entries of the very map that is ranged over (or by Add(1) per spawned goroutine) and Wait is called before the
// function returns. A count taken from anywhere else (say, the live active-stream counter) lets Close return while
// close requests are still in flight, or makes a late Done panic.
func closeAllWait(c *Ctx, id string, fn *ssa.Function) {
	w := c.W
	rangeRecv := ""
	allInstrs(fn, func(x ssa.Instruction) {
		if c2 := callOf(x); c2 != nil {
			if recv, _, isRange := w.rangeCall(c2); isRange && w.isOffsetMap(recv.Type()) {
				rangeRecv = w.Origin(recv)
			}
		}
	})
	var bad []string
	nAdd, nWait, nDone := 0, 0, 0
	for _, f := range withWorkers(fn) {
		allInstrs(f, func(in ssa.Instruction) {
			cc := callOf(in)
			if cc == nil {
				return
			}
			switch n := calleeName(cc); {
			case strings.HasSuffix(n, "WaitGroup).Add"):
				nAdd++
				o := w.Origin(cc.Args[len(cc.Args)-1])
				switch {
				case f == fn && rangeRecv != "" && isCountOf(w, cc.Args[len(cc.Args)-1], rangeRecv):
				case f != fn && o == "const(1)":
				default:
					bad = append(bad, "Add("+o+") @"+w.pos(in.Pos()))
				}
			case strings.HasSuffix(n, "WaitGroup).Wait"):
				if f == fn {
					nWait++
				}
			case strings.HasSuffix(n, "WaitGroup).Done"):
				nDone++
			}
		})
	}
	if nAdd == 0 && nWait == 0 && nDone == 0 {
		return // no WaitGroup: the close calls are synchronous (decided by the range rule)
	}
	c.Check(len(bad) == 0 && nAdd >= 1 && nWait == 1 && nDone >= 1, id, "close-wait:parallel@"+fname(fn), fn.Pos(), "the WaitGroup is sized by Count() of the ranged position map (one Done per spawned close) and waited for",
		fmt.Sprintf("the parallel close does not wait for exactly the goroutines it spawns (ranged map %s; %s; %d Add, %d Wait, %d Done): Close may return while close requests are in flight, or a late Done panics", rangeRecv, strings.Join(bad, ", "), nAdd, nWait, nDone))
}

// isCountOf: v (through conversions) is Count() of the concurrent map whose origin is recv.
func isCountOf(w *World, v ssa.Value, recv string) bool {
	call, ok := unwrap(v).(*ssa.Call)
	if !ok {
		return false
	}
	m, r := csmapMethod(call.Common())
	return m == "Count" && r != nil && w.Origin(r) == recv
}

// withWorkers: fn, its closures, and the module functions they start with `go` (with their closures): a goroutine body
// written as a method instead of a literal.
func withWorkers(fn *ssa.Function) []*ssa.Function {
	out := withAnon(fn)
	seen := map[*ssa.Function]bool{}
	for _, f := range out {
		seen[f] = true
	}
	for _, f := range withAnon(fn) {
		allInstrs(f, func(in ssa.Instruction) {
			if g, ok := in.(*ssa.Go); ok {
				if cal := g.Common().StaticCallee(); cal != nil && cal.Pkg == fn.Pkg && cal.Parent() == nil && !seen[cal] {
					for _, a := range withAnon(cal) {
						seen[a] = true
						out = append(out, a)
					}
				}
			}
		})
	}
	return out
}

// isGoWorker: fn is a top-level function that is only ever started with `go`.
func isGoWorker(w *World, fn *ssa.Function) bool {
	cs := w.callersOf(fn)
	if len(cs) == 0 || len(w.usesAsValue(fn)) > 0 {
		return false
	}
	for _, c := range cs {
		if _, isGo := c.Call.(*ssa.Go); !isGo {
			return false
		}
	}
	return true
}

// comparedCounter: v is (possibly negated, possibly through a small accessor of this module whose every return is such
// a test) an equality test between an integer counter field — read atomically or plainly — and another value; returns
// that field, nil otherwise.
func comparedCounter(w *World, v ssa.Value, depth int) *types.Var {
	v = unwrap(v)
	if u, ok := v.(*ssa.UnOp); ok && u.Op.String() == "!" {
		return comparedCounter(w, u.X, depth)
	}
	if b, ok := v.(*ssa.BinOp); ok && (b.Op.String() == "!=" || b.Op.String() == "==") {
		var counter *types.Var
		for _, side := range []ssa.Value{b.X, b.Y} {
			if f := counterRead(w, side, 2); f != nil {
				// (a field of a parameter bundle is an input, not the counter: `s.session.Load() != req.session`)
				if o := w.Origin(side); strings.HasPrefix(o, "param(") {
					continue
				}
				counter = f
			}
		}
		return counter
	}
	if call, ok := v.(*ssa.Call); ok && depth > 0 {
		callee := call.Common().StaticCallee()
		if callee == nil || callee.Blocks == nil || !w.inModule(callee) || callee.Signature.Results().Len() != 1 {
			return nil
		}
		var counter *types.Var
		n, bad := 0, 0
		allInstrs(callee, func(in ssa.Instruction) {
			if r, isRet := in.(*ssa.Return); isRet && in.Parent() == callee && len(r.Results) == 1 {
				n++
				if f := comparedCounter(w, r.Results[0], depth-1); f != nil && (counter == nil || counter == f) {
					counter = f
				} else {
					bad++
				}
			}
		})
		if n >= 1 && bad == 0 {
			return counter
		}
	}
	return nil
}

// counterRead: v reads an integer counter field — atomically or plainly, directly or through a small accessor of this
// module whose only return is such a read; returns that field.
func counterRead(w *World, v ssa.Value, depth int) *types.Var {
	v = unwrap(v)
	if call, isCall := v.(*ssa.Call); isCall {
		if strings.Contains(calleeName(call.Common()), "sync/atomic.") && strings.HasSuffix(calleeName(call.Common()), ".Load") && len(call.Common().Args) == 1 {
			return fieldOfAddr(call.Common().Args[0])
		}
		callee := call.Common().StaticCallee()
		if depth > 0 && callee != nil && callee.Blocks != nil && w.inModule(callee) && callee.Signature.Results().Len() == 1 {
			var f *types.Var
			n := 0
			allInstrs(callee, func(in ssa.Instruction) {
				if r, isRet := in.(*ssa.Return); isRet && in.Parent() == callee && len(r.Results) == 1 {
					n++
					f = counterRead(w, r.Results[0], depth-1)
				}
			})
			if n == 1 {
				return f
			}
		}
		return nil
	}
	if f := loadedField(v); f != nil {
		if bt, isBasic := f.Type().Underlying().(*types.Basic); isBasic && bt.Info()&types.IsInteger != 0 {
			return f
		}
	}
	return nil
}

// sessionAdvancedFirst (C13, C12): a background loop that stops when a session counter has moved is only stopped in time
// if the close advances the counter BEFORE it closes the streams and empties the position map — an attempt admitted
// after the streams were closed would leave a stream open behind Close, one after the map was emptied would fail.
// In the implementation of Stream.Close: an instruction that advances the counter (itself, or a call of a helper that
// does) dominates every instruction that reaches Client.CloseStream and every store to the position-map field.
func sessionAdvancedFirst(c *Ctx, id string) {
	w := c.W
	counters := map[*types.Var]bool{}
	for _, gl := range goLoops(w) {
		if !gl.HasLoop || gl.Body == nil {
			continue
		}
		cyc := cycleBlocks(gl.Body)
		allInstrs(gl.Body, func(in ssa.Instruction) {
			if ifi, ok := in.(*ssa.If); ok && cyc[in.Block()] {
				if f := comparedCounter(w, ifi.Cond, 2); f != nil {
					counters[f] = true
				}
			}
		})
	}
	if len(counters) == 0 {
		// every background loop is still required to have a stop the close path reaches (C13.R3); with no session-style
		// stop there is no ordering to check
		c.OKTrivial(id, "session-first", 0, "no background loop is stopped through a session counter: nothing to order (C13.R3 judges the stops)")
		return
	}
	advances := func(in ssa.Instruction) bool {
		if cc := callOf(in); cc != nil && strings.Contains(calleeName(cc), "sync/atomic.") && (strings.HasSuffix(calleeName(cc), ".Add") || strings.HasSuffix(calleeName(cc), ".Store")) && len(cc.Args) >= 1 && counters[fieldOfAddr(cc.Args[0])] {
			return true
		}
		if st, ok := in.(*ssa.Store); ok && counters[fieldOfAddr(st.Addr)] {
			return true
		}
		return false
	}
	closesStream := func(in ssa.Instruction) bool {
		cc := callOf(in)
		return cc != nil && isInvokeOf(cc, "Client", "CloseStream")
	}
	// does executing `in` (a call) run an instruction satisfying p in a synchronous callee?
	through := func(in ssa.Instruction, p func(ssa.Instruction) bool) bool {
		if p(in) {
			return true
		}
		cc := callOf(in)
		if cc == nil {
			return false
		}
		if _, isGo := in.(*ssa.Go); isGo {
			return false
		}
		callee := cc.StaticCallee()
		if callee == nil || callee.Blocks == nil || !w.inModule(callee) {
			return false
		}
		hit := false
		for f := range w.syncCallees(callee, 3, true) {
			for _, g := range withAnon(f) {
				allInstrs(g, func(x ssa.Instruction) {
					if p(x) {
						hit = true
					}
				})
			}
		}
		return hit
	}
	impls := w.implsOf("stream", "Stream", "Close")
	c.need(len(impls) > 0, id, "implementation of stream.Stream.Close")
	for _, fn := range impls {
		c.see(fn)
		var posMap *types.Var
		if rt := fn.Signature.Recv(); rt != nil {
			if pt, ok := rt.Type().(*types.Pointer); ok {
				if st, ok := pt.Elem().Underlying().(*types.Struct); ok {
					posMap = fieldDeep(st, func(f *types.Var) bool {
						ts := f.Type().String()
						return strings.Contains(ts, "ConcurrentSwissMap[uint16,") && strings.HasSuffix(ts, "models.Offset]")
					})
				}
			}
		}
		var adv, cls []ssa.Instruction
		allInstrs(fn, func(in ssa.Instruction) {
			if through(in, advances) {
				adv = append(adv, in)
			}
			if through(in, closesStream) {
				cls = append(cls, in)
			}
			if st, ok := in.(*ssa.Store); ok && posMap != nil && fieldOfAddr(st.Addr) == posMap {
				cls = append(cls, in)
			}
		})
		construct := "session-first@" + fname(fn)
		if len(adv) == 0 {
			c.Fail(id, construct, fn.Pos(), "the close never advances the session counter the background loop compares")
			continue
		}
		if len(cls) < 2 {
			c.Undecided(id, construct, fn.Pos(), "only %d closing steps found in the close (expected the stream close and the emptying of the position map)", len(cls))
			continue
		}
		var late []string
		for _, x := range cls {
			ok := false
			for _, a := range adv {
				if a != x && dominatesInstr(a, x) {
					ok = true
				}
			}
			if !ok {
				late = append(late, w.pos(x.Pos()))
			}
		}
		if len(late) == 0 {
			c.OK(id, construct, adv[0].Pos(), "the session counter is advanced before each of the %d closing steps (stream close, position map emptied)", len(cls))
		} else {
			c.Fail(id, construct, adv[0].Pos(), "the session counter is not advanced before the closing step(s) at %s: a re-open attempt admitted in between opens a stream behind the close or fails on the emptied position map", strings.Join(late, ", "))
		}
	}
	// … and by nothing but the close: a session ends when the stream is closed. An advance anywhere else (at the end of
	// Open, say) ends the session of every re-open that is waiting for its retry, although the stream is up.
	closeUnit := map[*ssa.Function]bool{}
	for _, fn := range impls {
		closeUnit[fn] = true
		for f := range w.syncCallees(fn, 3, true) {
			closeUnit[f] = true
		}
	}
	var stray []string
	for _, fn := range w.ModFuncs {
		allInstrs(fn, func(in ssa.Instruction) {
			if advances(in) && !closeUnit[rootFn(fn)] {
				if st, isSt := in.(*ssa.Store); isSt && rootAlloc(st.Addr) != nil {
					return // the zero value of a literal being built
				}
				stray = append(stray, fname(fn)+" @"+w.pos(in.Pos()))
			}
		})
	}
	sort.Strings(stray)
	c.Check(len(stray) == 0, id, "session-advanced-by-close-only", 0, "the session counter is advanced by the close and by nothing else", "the session counter is also advanced outside the close: "+strings.Join(stray, ", ")+" — a re-open waiting for its retry gives up although the stream is up, and the vBucket is never streamed again")
}

// fieldDeep: the (last) field of st, or of a struct embedded in it by value, that satisfies p.
func fieldDeep(st *types.Struct, p func(*types.Var) bool) *types.Var {
	var out *types.Var
	for i := 0; i < st.NumFields(); i++ {
		f := st.Field(i)
		if p(f) {
			out = f
		}
		if embeddedPart(f) {
			if inner, ok := f.Type().Underlying().(*types.Struct); ok {
				if g := fieldDeep(inner, p); g != nil {
					out = g
				}
			}
		}
	}
	return out
}
