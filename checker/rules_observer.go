package main

// rules_observer.go — shared analysis of the stream-observer (couchbase/observer.go) for C03, C06, C07, C08.

import (
	"fmt"
	"go/types"
	"strings"

	"golang.org/x/tools/go/ssa"
)

type obsInfo struct {
	typ      *types.Named
	handlers map[string]*ssa.Function
	deliver  *ssa.Function // sendOrSkip: the method that calls the listener field
	listener *types.Var    // func(models.ListenerArgs) field
	gate     *ssa.Function // canForward
	member   *ssa.Function // IsInSnapshotMarker
	skipWin  *ssa.Function // isBeforeSkipWindow
}

func observerInfo(c *Ctx, id string) *obsInfo {
	w := c.W
	impls := w.observerImpls()
	c.need(len(impls) == 1, id, fmt.Sprintf("exactly one module type implementing gocbcore.StreamObserver (found %d)", len(impls)))
	oi := &obsInfo{typ: impls[0], handlers: w.handlers(impls[0])}
	c.need(len(oi.handlers) == 13, id, fmt.Sprintf("13 StreamObserver handlers (found %d)", len(oi.handlers)))
	la := w.NamedType("models", "ListenerArgs")
	c.need(la != nil, id, "models.ListenerArgs")
	st := oi.typ.Underlying().(*types.Struct)
	for i := 0; i < st.NumFields(); i++ {
		if sig, ok := st.Field(i).Type().Underlying().(*types.Signature); ok && sig.Params().Len() == 1 && types.Identical(types.Unalias(sig.Params().At(0).Type()), la) {
			oi.listener = st.Field(i)
		}
	}
	c.need(oi.listener != nil, id, "observer field of type func(models.ListenerArgs)")
	// deliver: the method that calls the listener field
	for _, fn := range w.ModFuncs {
		if fn.Signature.Recv() == nil || recvTypeName(fn.Signature.Recv().Type()) != oi.typ.Obj().Name() {
			continue
		}
		allInstrs(fn, func(in ssa.Instruction) {
			if cc := callOf(in); cc != nil && !cc.IsInvoke() && derefsTo(cc.Value, oi.listener) {
				oi.deliver = fn
			}
		})
	}
	c.need(oi.deliver != nil, id, "observer method calling the listener field")
	pkg := strings.TrimPrefix(strings.TrimPrefix(oi.typ.Obj().Pkg().Path(), modPath), "/")
	oi.gate = w.Method(pkg, oi.typ.Obj().Name(), "canForward")
	oi.member = w.Method(pkg, oi.typ.Obj().Name(), "IsInSnapshotMarker")
	oi.skipWin = w.Method(pkg, oi.typ.Obj().Name(), "isBeforeSkipWindow")
	c.need(oi.gate != nil, id, "observer.canForward")
	c.need(oi.member != nil, id, "observer.IsInSnapshotMarker")
	c.need(oi.skipWin != nil, id, "observer.isBeforeSkipWindow")
	return oi
}

var docHandlers = []string{"Mutation", "Deletion", "Expiration"}

// callsIn lists the plain/go/defer calls of target in fn.
func callsIn(fn, target *ssa.Function) []ssa.CallInstruction {
	var out []ssa.CallInstruction
	allInstrs(fn, func(in ssa.Instruction) {
		if ci, ok := in.(ssa.CallInstruction); ok && ci.Common().StaticCallee() == target {
			out = append(out, ci)
		}
	})
	return out
}

// boundMethodOf resolves closure(T.m$bound) to the method T.m.
func (w *World) boundMethodOf(v ssa.Value) *ssa.Function {
	mc, ok := unwrap(v).(*ssa.MakeClosure)
	if !ok {
		return nil
	}
	bf, ok := mc.Fn.(*ssa.Function)
	if !ok || !strings.HasSuffix(bf.Name(), "$bound") {
		return nil
	}
	if obj, ok := bf.Object().(*types.Func); ok {
		return w.Prog.FuncValue(obj)
	}
	return nil
}

// listenerTargets: the functions bound to the observer's listener field (arguments of NewObserver).
func listenerTargets(c *Ctx, id string, oi *obsInfo) []*ssa.Function {
	w := c.W
	var out []*ssa.Function
	// constructor(s): functions that allocate the observer type and fill the listener field from a parameter
	for _, fn := range w.ModFuncs {
		for _, a := range allocsOf(fn, oi.typ) {
			tab, _ := allocTable(a)
			v := tab[oi.listener.Name()]
			if v == nil {
				continue
			}
			p, ok := unwrap(v).(*ssa.Parameter)
			if !ok {
				c.Fail(id, "listener-binding@"+fname(fn), a.Pos(), "observer.%s ← %s (expected the constructor's parameter)", oi.listener.Name(), w.Origin(v))
				continue
			}
			for _, cs := range w.callersOf(fn) {
				arg := argOfParam(cs.Call.Common(), fn, p)
				if m := w.boundMethodOf(arg); m != nil {
					out = append(out, m)
				} else if f := closureOf(arg); f != nil {
					out = append(out, f)
				} else {
					c.Undecided(id, "listener-binding@"+fname(cs.Fn), cs.Call.Pos(), "cannot resolve the listener handed to the observer: %s", w.Origin(arg))
				}
			}
		}
	}
	// the field has no other writer
	for _, fs := range w.fieldStores(oi.listener) {
		if _, isAlloc := fs.Store.Addr.(*ssa.FieldAddr).X.(*ssa.Alloc); !isAlloc {
			c.Fail(id, "listener-rebound@"+fname(fs.Fn), fs.Store.Pos(), "observer.%s is reassigned after construction", oi.listener.Name())
		}
	}
	return dedupFns(out)
}

// asyncConstructs lists constructs that could reorder, drop or defer work in fn: go, defer of non-trivial work,
// channel operations, select, timers.
func asyncConstructs(w *World, fn *ssa.Function) []string {
	var out []string
	allInstrs(fn, func(in ssa.Instruction) {
		switch x := in.(type) {
		case *ssa.Go:
			out = append(out, "go "+calleeName(x.Common())+" @"+w.pos(in.Pos()))
		case *ssa.Send:
			out = append(out, "channel send @"+w.pos(in.Pos()))
		case *ssa.Select:
			out = append(out, "select @"+w.pos(in.Pos()))
		case *ssa.UnOp:
			if x.Op.String() == "<-" {
				out = append(out, "channel receive @"+w.pos(in.Pos()))
			}
		case *ssa.Call:
			n := calleeName(x.Common())
			if n == "time.AfterFunc" || n == "time.NewTimer" || n == "time.After" {
				out = append(out, n+" @"+w.pos(in.Pos()))
			}
		}
	})
	return out
}

// eventSeqArg returns the origin of the first argument handed to the gate in a handler.
func gateCall(oi *obsInfo, h *ssa.Function) *ssa.Call {
	for _, ci := range callsIn(h, oi.gate) {
		if c, ok := ci.(*ssa.Call); ok {
			return c
		}
	}
	return nil
}

// sendOrSkipHarness: abstract environment for the deliver function.
func deliverHarness(oi *obsInfo) *Harness {
	recv := oi.deliver.Params[0].Name()
	return &Harness{
		Fn:    oi.deliver,
		Bools: []string{recv + ".closed"},
		Quiet: append([]string{"reflect.", "context.", "tracing.", "(*tracing.", "call:"}, quietLog...),
	}
}

func c03DeliverOAE(c *Ctx, id string, oi *obsInfo) {
	recv := oi.deliver.Params[0].Name()
	arg := oi.deliver.Params[1].Name()
	h := deliverHarness(oi)
	lab := recv + "." + oi.listener.Name()
	c.oae(id, "deliver@"+fname(oi.deliver), oi.deliver.Pos(), h, func(st *State, out *Outcome) string {
		if out.Panicked {
			return "panics"
		}
		var calls []Effect
		for _, e := range out.Trace {
			if e.Name == lab {
				calls = append(calls, e)
			}
		}
		if st.B(recv + ".closed") {
			if len(calls) != 0 {
				return "listener called although the observer is closed"
			}
			return ""
		}
		if len(calls) != 1 {
			return fmt.Sprintf("listener called %d times for one event", len(calls))
		}
		// the event handed on is the event received
		a, ok := calls[0].Args[0].(avStruct)
		if !ok || a.c == nil || len(a.c.fields) == 0 {
			return "listener argument is not a ListenerArgs value"
		}
		ev := a.c.fields[0]
		st0, _ := a.c.typ.Underlying().(*types.Struct)
		for i := 0; i < st0.NumFields(); i++ {
			if st0.Field(i).Name() == "Event" {
				ev = a.c.fields[i]
			}
		}
		if ev == nil || avString(ev.val) != arg+".Event" {
			got := "?"
			if ev != nil {
				got = avString(ev.val)
			}
			return "listener receives Event=" + got + ", expected the received " + arg + ".Event"
		}
		return ""
	}, "listener called exactly once with the received Event ⇔ ¬closed")
}
