package main

// rules_observer.go — shared analysis of the stream-observer (couchbase/observer.go) for C03, C06, C07, C08.

import (
	"fmt"
	"go/token"
	"go/types"
	"sort"
	"strings"

	"golang.org/x/tools/go/ssa"
)

type obsInfo struct {
	typ      *types.Named
	handlers map[string]*ssa.Function
	deliver  *ssa.Function // sendOrSkip: the method that calls the listener field
	listener *types.Var    // func(models.ListenerArgs) field
	gate     *ssa.Function // canForward (when the gate is split by its control flag: the data variant)
	// gates: every variant of the gate — one function taking (seqNo, isControl), or two taking (seqNo), one per kind of
	// event; gateCtl gives the fixed control flag of a variant of the split form
	gates   []*ssa.Function
	gateCtl map[*ssa.Function]bool
	member  *ssa.Function // IsInSnapshotMarker
	skipWin *ssa.Function // isBeforeSkipWindow
	need    *ssa.Function // needCatchup: the (uint64) bool helper the gate consults directly
	persist *ssa.Function // checkPersistSeqNo: the (uint64) bool helper polled in a loop by the gate or its wait helper
	waitFn  *ssa.Function // when there is no such helper: the function under the gate whose sleeping loop tests the persistence condition in line
	// fields by role (names are whatever the tree calls them today)
	fClosed, fEndClosed, fPersist, fCatchNeed, fCatchSeq string
}

// flagSetBy: the boolean field (plain or atomic) that method m of the observer sets to true.
func flagSetBy(w *World, m *ssa.Function) string {
	name := ""
	if m == nil {
		return ""
	}
	allInstrs(m, func(in ssa.Instruction) {
		if f, _, val := flagWrite(in); f != nil && w.Origin(val) == "const(true)" {
			name = f.Name()
		}
	})
	return name
}

// fieldsReadBy: names of the receiver's fields of the wanted kind that fn reads ("flag": bool/atomic.Bool, "uint64").
func fieldsReadBy(fn *ssa.Function, kind string) []string {
	seen := map[string]bool{}
	var out []string
	if fn == nil {
		return nil
	}
	allInstrs(fn, func(in ssa.Instruction) {
		v, ok := in.(ssa.Value)
		if !ok {
			return
		}
		var f *types.Var
		switch kind {
		case "flag":
			f, _ = flagRead(v)
		case "uint64":
			if u, isU := v.(*ssa.UnOp); isU && u.Op == token.MUL {
				if fl := fieldOfAddr(u.X); fl != nil {
					if b, isB := fl.Type().Underlying().(*types.Basic); isB && b.Kind() == types.Uint64 {
						f = fl
					}
				}
			}
		}
		if f != nil && !seen[f.Name()] {
			seen[f.Name()] = true
			out = append(out, f.Name())
		}
	})
	return out
}

// methodsBySig: the observer's methods whose parameters (after the receiver) and results have the given kinds.
func (w *World) methodsBySig(typ *types.Named, params []string, results []string) []*ssa.Function {
	var out []*ssa.Function
	for _, fn := range w.ModFuncs {
		if fn.Signature.Recv() == nil || fn.Parent() != nil || recvTypeName(fn.Signature.Recv().Type()) != typ.Obj().Name() || fn.Pkg == nil || fn.Pkg.Pkg != typ.Obj().Pkg() {
			continue
		}
		sig := fn.Signature
		if sig.Params().Len() != len(params) || sig.Results().Len() != len(results) {
			continue
		}
		ok := true
		for i, k := range params {
			if shortType(sig.Params().At(i).Type()) != k {
				ok = false
			}
		}
		for i, k := range results {
			if shortType(sig.Results().At(i).Type()) != k {
				ok = false
			}
		}
		if ok {
			out = append(out, fn)
		}
	}
	sort.Slice(out, func(i, j int) bool { return fname(out[i]) < fname(out[j]) })
	return out
}

func observerInfo(c *Ctx, id string) *obsInfo {
	w := c.W
	impls := w.observerImpls()
	c.need(len(impls) == 1, id, fmt.Sprintf("exactly one module type implementing gocbcore.StreamObserver (found %d)", len(impls)))
	oi := &obsInfo{typ: impls[0], handlers: w.handlers(impls[0])}
	c.need(len(oi.handlers) == 13, id, fmt.Sprintf("13 StreamObserver handlers (found %d)", len(oi.handlers)))
	la := w.NamedType("models", "ListenerArgs")
	c.need(la != nil, id, "models.ListenerArgs")
	st := oi.typ.Underlying().(*types.Struct)
	for i := 0; i < st.NumFields(); i++ {
		if sig, ok := st.Field(i).Type().Underlying().(*types.Signature); ok && sig.Params().Len() == 1 && types.Identical(types.Unalias(sig.Params().At(0).Type()), la) {
			oi.listener = st.Field(i)
		}
	}
	c.need(oi.listener != nil, id, "observer field of type func(models.ListenerArgs)")
	// deliver: the method that calls the listener field
	for _, fn := range w.ModFuncs {
		if fn.Signature.Recv() == nil || recvTypeName(fn.Signature.Recv().Type()) != oi.typ.Obj().Name() {
			continue
		}
		allInstrs(fn, func(in ssa.Instruction) {
			if cc := callOf(in); cc != nil && !cc.IsInvoke() && derefsTo(cc.Value, oi.listener) {
				oi.deliver = fn
			}
		})
	}
	c.need(oi.deliver != nil, id, "observer method calling the listener field")
	pkg := strings.TrimPrefix(strings.TrimPrefix(oi.typ.Obj().Pkg().Path(), modPath), "/")
	// helpers are identified by role (signature and who calls them), not by name
	oi.gateCtl = map[*ssa.Function]bool{}
	if g := w.methodsBySig(oi.typ, []string{"uint64", "bool"}, []string{"bool"}); len(g) == 1 {
		oi.gate = g[0]
		oi.gates = []*ssa.Function{g[0]}
	}
	oi.member = w.Method(pkg, oi.typ.Obj().Name(), "IsInSnapshotMarker")
	if oi.gate == nil {
		// the gate split by its control flag into two named helpers: the (uint64) bool methods the event handlers call
		// directly (other than the snapshot-membership test); the variant the marker handler calls is the control one
		cnt := map[*ssa.Function]int{}
		byMarker := map[*ssa.Function]bool{}
		for name, h := range oi.handlers {
			allInstrs(h, func(in ssa.Instruction) {
				if cc := callOf(in); cc != nil {
					for _, m := range w.methodsBySig(oi.typ, []string{"uint64"}, []string{"bool"}) {
						if cc.StaticCallee() == m && m != oi.member {
							cnt[m]++
							if name == "SnapshotMarker" {
								byMarker[m] = true
							}
						}
					}
				}
			})
		}
		if len(cnt) == 2 {
			for m := range cnt {
				oi.gates = append(oi.gates, m)
				oi.gateCtl[m] = byMarker[m]
			}
			sort.Slice(oi.gates, func(i, j int) bool { return fname(oi.gates[i]) < fname(oi.gates[j]) })
			for _, m := range oi.gates {
				if !oi.gateCtl[m] {
					oi.gate = m
				}
			}
			if oi.gate == nil || oi.gateCtl[oi.gates[0]] == oi.gateCtl[oi.gates[1]] {
				oi.gate, oi.gates = nil, nil
			}
		}
	}
	if g := w.methodsBySig(oi.typ, []string{"time.Time"}, []string{"bool"}); len(g) == 1 {
		oi.skipWin = g[0]
	}
	c.need(oi.gate != nil, id, "the observer's gate: its one method of signature (uint64, bool) bool (canForward)")
	c.need(oi.member != nil, id, "observer.IsInSnapshotMarker")
	c.need(oi.skipWin != nil, id, "the observer's one method of signature (time.Time) bool (isBeforeSkipWindow)")
	gateUnit := oi.gateUnit(w)
	for _, m := range w.methodsBySig(oi.typ, []string{"uint64"}, []string{"bool"}) {
		if m == oi.member {
			continue
		}
		polled, direct := false, false
		for f := range gateUnit {
			cyc := cycleBlocks(f)
			allInstrs(f, func(in ssa.Instruction) {
				if cc := callOf(in); cc != nil && cc.StaticCallee() == m {
					if cyc[in.Block()] {
						polled = true
					} else if oi.isGate(f) {
						direct = true
					}
				}
			})
		}
		if polled && oi.persist == nil {
			oi.persist = m
		} else if direct && oi.need == nil {
			oi.need = m
		}
	}
	if oi.persist == nil {
		// the persistence test written out in the polling loop itself: a function under the gate with a loop that sleeps
		for f := range gateUnit {
			cyc := cycleBlocks(f)
			allInstrs(f, func(in ssa.Instruction) {
				if cc := callOf(in); cc != nil && calleeName(cc) == "time.Sleep" && cyc[in.Block()] && !oi.isGate(f) {
					oi.waitFn = f
				}
			})
		}
	}
	// field roles; the historical names are the fallback when a role cannot be resolved (the rules then fail on
	// the missing location, never silently)
	oi.fClosed, oi.fEndClosed, oi.fPersist, oi.fCatchNeed, oi.fCatchSeq = "closed", "endClosed", "persistSeqNo", "isCatchupNeed", "catchupSeqNo"
	if n := flagSetBy(w, w.Method(pkg, oi.typ.Obj().Name(), "Close")); n != "" {
		oi.fClosed = n
	}
	if n := flagSetBy(w, w.Method(pkg, oi.typ.Obj().Name(), "CloseEnd")); n != "" {
		oi.fEndClosed = n
	}
	if fs := fieldsReadBy(oi.persist, "uint64"); len(fs) == 1 {
		oi.fPersist = fs[0]
	} else if fs := fieldsReadBy(oi.waitFn, "uint64"); len(fs) == 1 {
		oi.fPersist = fs[0]
	}
	if fs := fieldsReadBy(oi.need, "flag"); len(fs) == 1 {
		oi.fCatchNeed = fs[0]
	}
	if fs := fieldsReadBy(oi.need, "uint64"); len(fs) == 1 {
		oi.fCatchSeq = fs[0]
	}
	return oi
}

var docHandlers = []string{"Mutation", "Deletion", "Expiration"}

// callsIn lists the plain/go/defer calls of target in fn.
func callsIn(fn, target *ssa.Function) []ssa.CallInstruction {
	var out []ssa.CallInstruction
	allInstrs(fn, func(in ssa.Instruction) {
		if ci, ok := in.(ssa.CallInstruction); ok && ci.Common().StaticCallee() == target {
			out = append(out, ci)
		}
	})
	return out
}

// boundMethodOf resolves closure(T.m$bound) to the method T.m.
func (w *World) boundMethodOf(v ssa.Value) *ssa.Function {
	mc, ok := unwrap(v).(*ssa.MakeClosure)
	if !ok {
		return nil
	}
	bf, ok := mc.Fn.(*ssa.Function)
	if !ok {
		return nil
	}
	if !strings.HasSuffix(bf.Name(), "$bound") {
		// func() { x.m() }: a closure that only forwards to one method of a captured receiver is the same binding
		return forwardedMethod(bf)
	}
	if obj, ok := bf.Object().(*types.Func); ok {
		return w.Prog.FuncValue(obj)
	}
	return nil
}

// listenerTargets: the functions bound to the observer's listener field (arguments of NewObserver).
func listenerTargets(c *Ctx, id string, oi *obsInfo) []*ssa.Function {
	w := c.W
	var out []*ssa.Function
	// constructor(s): functions that allocate the observer type and fill the listener field from a parameter
	for _, fn := range w.ModFuncs {
		for _, a := range allocsOf(fn, oi.typ) {
			tab, _ := allocTable(a)
			v := tab[oi.listener.Name()]
			if v == nil {
				continue
			}
			traced := w.traceToCallers(fn, v, 0)
			if len(traced) == 0 {
				c.Fail(id, "listener-binding@"+fname(fn), a.Pos(), "observer.%s ← %s (expected the constructor's parameter)", oi.listener.Name(), w.Origin(v))
				continue
			}
			for _, ta := range traced {
				arg, cs := ta.Val, ta.Site
				if arg == nil {
					c.Undecided(id, "listener-binding@"+fname(cs.Fn), cs.Call.Pos(), "cannot resolve the listener handed to the observer")
					continue
				}
				if m := w.boundMethodOf(arg); m != nil {
					out = append(out, m)
				} else if f := closureOf(arg); f != nil {
					out = append(out, f)
				} else {
					c.Undecided(id, "listener-binding@"+fname(cs.Fn), cs.Call.Pos(), "cannot resolve the listener handed to the observer: %s", w.Origin(arg))
				}
			}
		}
	}
	// the field has no other writer
	for _, fs := range w.fieldStores(oi.listener) {
		if _, isAlloc := fs.Store.Addr.(*ssa.FieldAddr).X.(*ssa.Alloc); !isAlloc {
			c.Fail(id, "listener-rebound@"+fname(fs.Fn), fs.Store.Pos(), "observer.%s is reassigned after construction", oi.listener.Name())
		}
	}
	return dedupFns(out)
}

// asyncConstructs lists constructs that could reorder, drop or defer work in fn: go, defer of non-trivial work,
// channel operations, select, timers.
func asyncConstructs(w *World, fn *ssa.Function) []string {
	var out []string
	allInstrs(fn, func(in ssa.Instruction) {
		switch x := in.(type) {
		case *ssa.Go:
			out = append(out, "go "+calleeName(x.Common())+" @"+w.pos(in.Pos()))
		case *ssa.Send:
			out = append(out, "channel send @"+w.pos(in.Pos()))
		case *ssa.Select:
			out = append(out, "select @"+w.pos(in.Pos()))
		case *ssa.UnOp:
			if x.Op.String() == "<-" {
				out = append(out, "channel receive @"+w.pos(in.Pos()))
			}
		case *ssa.Call:
			n := calleeName(x.Common())
			if n == "time.AfterFunc" || n == "time.NewTimer" || n == "time.After" {
				out = append(out, n+" @"+w.pos(in.Pos()))
			}
		}
	})
	return out
}

// eventSeqArg returns the origin of the first argument handed to the gate in a handler.
func gateCall(oi *obsInfo, h *ssa.Function) *ssa.Call {
	for _, g := range oi.gates {
		for _, ci := range callsIn(h, g) {
			if c, ok := ci.(*ssa.Call); ok {
				return c
			}
		}
	}
	return nil
}

// gateCtlOrigin: the control flag a gate call passes — its third argument, or the constant the called variant stands for.
func (oi *obsInfo) gateCtlOrigin(w *World, g *ssa.Call) string {
	callee := g.Common().StaticCallee()
	if len(g.Common().Args) >= 3 {
		return w.Origin(g.Common().Args[2])
	}
	if oi.gateCtl[callee] {
		return "const(true)"
	}
	return "const(false)"
}

func (oi *obsInfo) isGate(f *ssa.Function) bool {
	for _, g := range oi.gates {
		if g == f {
			return true
		}
	}
	return false
}

func (oi *obsInfo) isGateName(name string) bool {
	for _, g := range oi.gates {
		if fname(g) == name {
			return true
		}
	}
	return false
}

func (oi *obsInfo) gateUnit(w *World) map[*ssa.Function]bool {
	out := map[*ssa.Function]bool{}
	for _, g := range oi.gates {
		for f := range w.syncCallees(g, 1, false) {
			out[f] = true
		}
	}
	return out
}

func (oi *obsInfo) gateNoInline(m map[string]bool) map[string]bool {
	for _, g := range oi.gates {
		m[fname(g)] = true
	}
	return m
}

// sendOrSkipHarness: abstract environment for the deliver function.
func deliverHarness(oi *obsInfo) *Harness {
	recv := oi.deliver.Params[0].Name()
	return &Harness{
		Fn:    oi.deliver,
		Bools: []string{recv + "." + oi.fClosed},
		Quiet: append([]string{"reflect.", "context.", "tracing.", "(*tracing.", "call:"}, quietLog...),
	}
}

func c03DeliverOAE(c *Ctx, id string, oi *obsInfo) {
	recv := oi.deliver.Params[0].Name()
	arg := oi.deliver.Params[1].Name()
	for _, p := range oi.deliver.Params[1:] {
		if strings.HasSuffix(p.Type().String(), "models.ListenerArgs") {
			arg = p.Name() // by type: a context or trace parameter may precede it
		}
	}
	h := deliverHarness(oi)
	lab := recv + "." + oi.listener.Name()
	c.oae(id, "deliver@"+fname(oi.deliver), oi.deliver.Pos(), h, func(st *State, out *Outcome) string {
		if out.Panicked {
			return "panics"
		}
		var calls []Effect
		for _, e := range out.Trace {
			if e.Name == lab {
				calls = append(calls, e)
			}
		}
		if st.B(recv + "." + oi.fClosed) {
			if len(calls) != 0 {
				return "listener called although the observer is closed"
			}
			return ""
		}
		if len(calls) != 1 {
			return fmt.Sprintf("listener called %d times for one event", len(calls))
		}
		// the event handed on is the event received
		a, ok := calls[0].Args[0].(avStruct)
		if !ok || a.c == nil || len(a.c.fields) == 0 {
			return "listener argument is not a ListenerArgs value"
		}
		ev := a.c.fields[0]
		st0, _ := a.c.typ.Underlying().(*types.Struct)
		for i := 0; i < st0.NumFields(); i++ {
			if st0.Field(i).Name() == "Event" {
				ev = a.c.fields[i]
			}
		}
		if ev == nil || avString(ev.val) != arg+".Event" {
			got := "?"
			if ev != nil {
				got = avString(ev.val)
			}
			return "listener receives Event=" + got + ", expected the received " + arg + ".Event"
		}
		return ""
	}, "listener called exactly once with the received Event ⇔ ¬closed")
}

// forwardedMethod: for an anonymous function whose whole body is one static method call on a captured value with
// its own parameters passed through (and the results returned), the method; nil otherwise.
func forwardedMethod(fn *ssa.Function) *ssa.Function {
	if fn == nil || fn.Parent() == nil || len(fn.Blocks) != 1 {
		return nil
	}
	var call *ssa.Call
	for _, in := range fn.Blocks[0].Instrs {
		switch x := in.(type) {
		case *ssa.UnOp:
			if x.Op != token.MUL {
				return nil
			}
			if _, ok := x.X.(*ssa.FreeVar); !ok {
				return nil
			}
		case *ssa.Call:
			if call != nil {
				return nil
			}
			call = x
		case *ssa.Extract, *ssa.Return, *ssa.DebugRef:
		default:
			return nil
		}
	}
	if call == nil {
		return nil
	}
	callee := call.Common().StaticCallee()
	if callee == nil || callee.Signature.Recv() == nil || len(call.Common().Args) != 1+len(fn.Params) {
		return nil
	}
	switch r := call.Common().Args[0].(type) {
	case *ssa.FreeVar:
	case *ssa.UnOp:
		if _, ok := r.X.(*ssa.FreeVar); !ok {
			return nil
		}
	default:
		return nil
	}
	for i, p := range fn.Params {
		if call.Common().Args[1+i] != ssa.Value(p) {
			return nil
		}
	}
	return callee
}

// switchOwner: the observer's two switches (delivery: closed, end: endClosed) are thrown only by the stream's close.
// An observer object outlives a stream end — reopenStream reuses it — so a switch thrown anywhere else silently drops
// every later event (or end) of that vBucket.
func switchOwner(c *Ctx, id string) {
	w := c.W
	oi := observerInfo(c, id)
	pkg := strings.TrimPrefix(strings.TrimPrefix(oi.typ.Obj().Pkg().Path(), modPath), "/")
	streamClose := w.Method("stream", "stream", "Close")
	c.need(streamClose != nil, id, "stream.stream.Close")
	closeUnit := w.syncCallees(streamClose, 2, true) // Stream.Close with its synchronous helpers
	closeUnit[streamClose] = true
	for _, sw := range []struct{ method, field, what string }{{"Close", oi.fClosed, "delivery"}, {"CloseEnd", oi.fEndClosed, "end"}} {
		m := w.Method(pkg, oi.typ.Obj().Name(), sw.method)
		if m == nil {
			c.Undecided(id, "switch-owner|"+sw.what, 0, "observer.%s not found", sw.method)
			continue
		}
		c.see(m)
		// writers of the flag
		var badW []string
		nW := 0
		for _, fn := range w.ModFuncs {
			allInstrs(fn, func(in ssa.Instruction) {
				f, _, val := flagWrite(in)
				if f == nil || f.Name() != sw.field || f.Pkg() != oi.typ.Obj().Pkg() {
					return
				}
				if st := oi.typ.Underlying().(*types.Struct); !hasField(st, f) {
					return
				}
				nW++
				if rootFn(fn) != m {
					badW = append(badW, fname(fn)+" ← "+w.Origin(val)+" @"+w.pos(in.Pos()))
				}
			})
		}
		// callers of the method (static, or through the Observer interface)
		var badC []string
		nC := 0
		for _, fn := range w.ModFuncs {
			allInstrs(fn, func(in ssa.Instruction) {
				cc := callOf(in)
				if cc == nil {
					return
				}
				hit := cc.StaticCallee() == m
				if w.forEachApplication(cc) == "Observer."+sw.method {
					hit = true // the method expression handed to an iteration helper: called on every observer here
				}
				if cc.IsInvoke() && cc.Method.Name() == sw.method && types.Implements(types.NewPointer(oi.typ), ifaceOf(cc.Value.Type())) && strings.HasSuffix(types.TypeString(cc.Value.Type(), nil), "Observer") {
					hit = true
				}
				if !hit {
					return
				}
				nC++
				if !closeUnit[rootFn(fn)] {
					badC = append(badC, fname(fn)+" @"+w.pos(in.Pos()))
				}
			})
		}
		// a method value / bound method escaping would be a caller we cannot see
		for _, u := range w.usesAsValue(m) {
			badC = append(badC, "used as a value @"+w.pos(u.Pos()))
		}
		sort.Strings(badW)
		sort.Strings(badC)
		c.Check(len(badW) == 0 && len(badC) == 0 && nW >= 1 && nC >= 1, id, "switch-owner|"+sw.what, m.Pos(),
			fmt.Sprintf("the %s switch (%s) is written only by Observer.%s (%d writes), which is called only from Stream.Close (%d calls)", sw.what, sw.field, sw.method, nW, nC),
			fmt.Sprintf("the %s switch of an observer that reopen reuses is thrown outside the stream's close (writes elsewhere: [%s]; calls elsewhere: [%s]; %d writes, %d calls): every later event of that vBucket is dropped", sw.what, strings.Join(badW, ", "), strings.Join(badC, ", "), nW, nC))
	}
}

func hasField(st *types.Struct, f *types.Var) bool {
	for i := 0; i < st.NumFields(); i++ {
		if st.Field(i) == f {
			return true
		}
		// a part embedded by value: its fields are the struct's own
		if embeddedPart(st.Field(i)) {
			if es, ok := st.Field(i).Type().Underlying().(*types.Struct); ok && hasField(es, f) {
				return true
			}
		}
	}
	return false
}

func ifaceOf(t types.Type) *types.Interface {
	if i, ok := t.Underlying().(*types.Interface); ok {
		return i
	}
	return types.NewInterfaceType(nil, nil)
}

// markerInstall: the handlers that announce a snapshot (SnapshotMarker, SeqNoAdvanced — found as the handlers that
// assign observer.currentSnapshot) install it under exactly the gate: installed (and handed to the deliver function
// once) ⇔ canForward, whatever else the observer's state says. In particular a marker arriving while the delivery
// switch is off is still tracked: the items that race with the close are then dropped by the switch instead of
// tripping the fail-stop membership check (a crash inside Close).
func markerInstall(c *Ctx, id string) {
	w := c.W
	oi := observerInfo(c, id)
	f := w.Field("couchbase", oi.typ.Obj().Name(), "currentSnapshot")
	c.need(f != nil, id, "observer.currentSnapshot")
	n := 0
	for _, name := range sortedKeys(oi.handlers) {
		h := oi.handlers[name]
		stores := false
		allInstrs(h, func(in ssa.Instruction) {
			if st, ok := in.(*ssa.Store); ok && fieldOfAddr(st.Addr) == f {
				stores = true
			}
		})
		if !stores {
			continue
		}
		n++
		recv := h.Params[0].Name()
		hs := &Harness{
			Fn:       h,
			Bools:    []string{"fwd"},
			NoInline: oi.gateNoInline(map[string]bool{fname(oi.deliver): true}),
			Quiet:    quietLog,
			Oracle: func(st *State, fn string, args []AV, res *types.Tuple) ([]AV, bool) {
				if oi.isGateName(fn) {
					return []AV{avBool{st.B("fwd")}}, true
				}
				return nil, false
			},
		}
		c.oae(id, "marker-install:"+name, h.Pos(), hs, func(st *State, out *Outcome) string {
			if out.Panicked {
				return "handler panics"
			}
			installed := out.Final(recv+"."+f.Name()) != nil
			nd := len(out.Effects(fname(oi.deliver)))
			if installed != st.B("fwd") {
				return fmt.Sprintf("gate=%v but snapshot installed=%v", st.B("fwd"), installed)
			}
			if (nd == 1) != st.B("fwd") || nd > 1 {
				return fmt.Sprintf("gate=%v but handed to the deliver function %d times", st.B("fwd"), nd)
			}
			return ""
		}, "snapshot installed and event handed on once ⇔ canForward; no other predicate (a branch on any other observer state is outside the fragment)")
	}
	if n < 2 {
		c.Undecided(id, "marker-install", 0, "only %d handlers assign observer.currentSnapshot (SnapshotMarker and SeqNoAdvanced confirmed by hand)", n)
	}
}
