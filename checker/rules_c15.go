package main

import (
	"fmt"
	"go/types"
	"strings"

	"golang.org/x/tools/go/ssa"
)

func init() {
	register(&Property{
		ID: "C15",
		Explanation: "Decides the fail-fast guards of start-up: (R1) in the session load, panic ⇔ stored seqNo > the vBucket's sampled high seqNo, and the offset is stored exactly when it does not panic (exhaustive over the order of the two numbers); " +
			"(R2) the errors of Metadata.Load, GetVBucketSeqNos, GetFailOverLogs (session load), of the xattr read in the Couchbase backend (other than key-not-found) and of GetCollectionIDs (Start) reach a panic or an error return, and the continuation runs only under err==nil; " +
			"(R3) every goroutine spawned by openAllStreams panics on an openStream error itself (or records it under err≠nil only), Done only after success, and the WaitGroup is Add(len)/Wait; the bounded reopen is C12.R3; " +
			"(R4) the metadata switch, the membership switch and the leader-election type test end in a panic when no case matches; (R5) the sequence-number query reports a failed node (the callback's error reaches the result — defect F4, repaired). " +
			"NOT decided: process-level observation of the panic; goroutines inside dependencies.",
		Assumptions: []string{"a panic in a library goroutine terminates the process (no recover in the module)"},
		Rules: []RuleDef{
			{ID: "C15.R30", Text: "a membership change is never absorbed by a rebalance already under way: the rebalance decision evaluated exhaustively — a change that arrives while the delayed re-open is pending or running re-arms it (same rule as C11.R13)", Run: rebalanceDecision},
			{ID: "C15.R31", Text: "which failures are survivable is decided per failure: errors.As targets are read only under the true result of their own errors.As (same rule as C20.R26)", Run: errorsAsFresh},
			{ID: "C15.R1", Text: "checkpoint-ahead guard: panic ⇔ doc.SeqNo > high seqNo of the same vBucket; offsets.Store(vbID, …) exactly once otherwise", Run: c15r1},
			{ID: "C15.R2", Text: "load errors are fatal: each listed error reaches panic/return and the continuation is dominated by err==nil", Run: c15r2},
			{ID: "C15.R3", Text: "open all or die: each spawned opener panics on error (or records it only under err≠nil); WaitGroup Add(len(vbIDs)) / Done after success / Wait before return", Run: c15r3},
			{ID: "C15.R4", Text: "type switches are closed: no-match paths of the metadata, membership and leader-election selections panic", Run: c15r4},
			{ID: "C15.R5", Text: "GetVBucketSeqNos: the callback's error reaches the function's error result (same rule as C20.R3 on that wrapper)", Run: c15r5},
			{ID: "C15.R7", Text: "defaults never rewrite a configured (possibly invalid) type: every default store is guarded by the zero-test of its own field (same rule as C17.R1)", Run: c17r1},
			{ID: "C15.R8", Text: "a vBucket without a position is an error: openStream returns a non-nil error on every path on which the position lookup fails", Run: c15r8},
			{ID: "C15.R9", Text: "an unreadable checkpoint is fatal, not 'no checkpoint': the file backend treats exactly os.ErrNotExist as absent and returns every other read or parse error; the Couchbase backend concludes absence only after the read and parse (same rule as C02.R7)", Run: c02r7},
			{ID: "C15.R10", Text: "a transient end is always answered by the bounded reopen: reopen ⇔ ¬closeWithCancel ∧ err≠nil ∧ transient cause, under no further condition of the stream's state (same rule as C12.R1)", Run: c12r1},
			{ID: "C15.R11", Text: "the session starts from what the guarded load returned: the position map is assigned only from Checkpoint.Load()#0 (or a fresh empty map) and mutated only by the position writer — nothing carried over from a previous session bypasses the checkpoint-ahead guard (same rule as C01.R1)", Run: c01r1},
			{ID: "C15.R12", Text: "every end of a vBucket's stream reaches the end listener while the stream is open: End forwards ⇔ ¬endClosed and never writes the switch itself (same rule as C12.R4)", Run: c12r4},
			{ID: "C15.R13", Text: "a stream that cannot be opened is reported to the fail-stop logic: openStream makes one request and returns its outcome — no loop, no sleep", Run: openOnce},
			{ID: "C15.R14", Text: "open-all waits for all: every opener signals Done exactly once on every non-panicking path, Add(len(vbIDs)), Wait before return — and the same for the concurrent checkpoint load", Run: workersSignal("stream.stream).openAllStreams", "couchbase.cbMetadata).Load")},
			{ID: "C15.R15", Text: "a checkpoint that cannot be read stops the start-up, a missing one does not (same rule as C02.R17)", Run: cbLoadReader},
			{ID: "C15.R16", Text: "the high sequence numbers the guard compares with are complete and maximal: every node 1..NumServers() is asked and the merge keeps the largest report per vBucket (exhaustive)", Run: seqnoMerge},
			{ID: "C15.R17", Text: "start-up fails on what it cannot obtain: the client's start and close paths call by call: the stream is opened, the listener subscribed (failure fatal), each optional component started and stopped under exactly its configuration switch (polarity included), Commit is Stream.Save, SetMetadata installs the supplied store, newDcp applies the defaults first and returns every error", Run: clientWiring},
			{ID: "C15.R18", Text: "the start-up switch on the metadata type and the stream mode read the documented values: IsCouchbaseMetadata ⇔ type == \"couchbase\", IsFileMetadata ⇔ type == \"file\", IsDcpModeFinite ⇔ mode == \"finite\" (exhaustive)", Run: configPredicates},
			{ID: "C15.R19", Text: "start-up does not go on without the server's version and bucket description: every fallible step of the REST client (ping, request, decode, version parse) reports its error on the edges on which it is non-nil, and no method returns (nil, nil)", Run: restStepErrors},
			{ID: "C15.R20", Text: "a rebalance does not mark the session cancelled: Rebalance closes with Close(false), so recoverable ends of the next session are still reopened or fail the client (same rule as C11.R3)", Run: c11r3},
			{ID: "C15.R21", Text: "an unresolved ${VAR} stays a literal the type switches refuse: placeholders are replaced only when LookupEnv reports the variable as set (same rule as C17.R4)", Run: c17r4},
			{ID: "C15.R22", Text: "read-only mode does not hide a failed checkpoint load: the wrapper returns the wrapped store's (documents, exists, error) untouched from exactly one Load with its own arguments (exhaustive)", Run: readOnlyForwardsLoad},
			{ID: "C15.R23", Text: "fatal stays fatal: the module never calls recover() (positive control: the fatal exits are counted)", Run: neverRecovers},
			{ID: "C15.R24", Text: "a failed sequence-number query is an error: AsyncOp.Wait reports this operation's own outcome — err≠nil → err, else select{ctx.Done→Cancel, signal}, ctx.Err() — on a record that is not shared with another operation (same rule as C20.R1)", Run: c20r1},
			{ID: "C15.R25", Text: "a checkpoint beyond the bucket's high sequence number reaches the guard that refuses it: the file backend returns what the file holds, whatever bucket id a document carries (same rule as C02.R15)", Run: fileLoadExact},
			{ID: "C15.R26", Text: "error discipline, module-wide: of every call that hands back an error, the failure reaches whoever asked (returned, panicked, sent, handed to a continuation, wrapped and then one of these — or a panic / error return that runs only where it is non-nil); the sites where it does not are the ones confirmed by reading (frozen table: package, callee, count, reason)", Run: errorDiscipline},
			{ID: "C15.R27", Text: "the checkpoint-ahead guard compares with the current answer of the server: no caching, retrying or limiting layer in front of a collaborator that is not a proven pass-through (same rules as C20.R19 and C20.R20)", Run: func(c *Ctx, id string) { decoratorsTransparent()(c, id); noNewLayers(c, id) }},
			{ID: "C15.R28", Text: "a stream that cannot be opened is seen by the fail-stop logic: openStream waits for nothing but its request (same rule as C11.R26)", Run: openDoesNotWait},
			{ID: "C15.R29", Text: "fatal stays fatal also for a re-open triggered through the API: no recovering middleware, every route has its one handler (same rule as C10.R31)", Run: apiRoutesExact},
			{ID: "C15.R6", Text: "bounded reopen then fail-stop (same rule as C12.R3)", Run: c12r3},
		},
	})
}

func c15r1(c *Ctx, id string) {
	w := c.W
	for _, ld := range w.implsOf("stream", "Checkpoint", "Load") {
		for _, ls := range findLoadSites(c, id, ld) {
			if ls.latest || ls.keyP == nil || ls.docP == nil {
				continue
			}
			cl := ls.closure
			vb, doc := ls.keyP.Name(), ls.docP.Name()
			ds := doc + ".Checkpoint.SeqNo"
			// "reported": the sequence-number answer has an entry for this vBucket; when it has none the map lookup yields
			// the zero value, so any stored position above 0 is ahead of what the server is known to have reached
			h := &Harness{Fn: cl, Groups: []Group{{Atoms: []string{ds, "high", "#0"}, Unsigned: true}, {Atoms: []string{vb}, Unsigned: true}}, Bools: []string{"reported"}, Quiet: quietLog,
				Oracle: func(st *State, name string, args []AV, res *types.Tuple) ([]AV, bool) {
					if strings.HasSuffix(name, ".Load") && len(args) == 2 {
						if avString(args[1]) != vb {
							return []AV{avOpaque{"high seqNo of another vBucket"}, avBool{true}}, true
						}
						if !strings.Contains(strings.ToLower(name), "seqno") {
							return []AV{avOpaque{"high seqNo taken from " + name}, avBool{true}}, true
						}
						if !st.B("reported") {
							return []AV{avInt{conc: 0}, avBool{false}}, true
						}
						return []AV{avInt{atom: "high"}, avBool{true}}, true
					}
					return nil, false
				}}
			c.oae(id, "ahead-guard@"+fname(cl), cl.Pos(), h, func(st *State, out *Outcome) string {
				high := "high"
				if !st.B("reported") {
					high = "#0"
				}
				stores := 0
				for _, e := range out.Trace {
					if strings.HasSuffix(e.Name, ".Store") && len(e.Args) == 3 {
						stores++
						if avString(e.Args[1]) != vb {
							return "offset stored under another key: " + e.String()
						}
					}
				}
				if st.Lt(high, ds) {
					if !out.Panicked {
						if !st.B("reported") {
							return "a stored position is accepted for a vBucket the sequence-number answer does not contain: nothing shows the server has reached it"
						}
						return "a checkpoint beyond the vBucket's high seqNo is accepted (bucket flushed/recreated): the stream would be requested from a position the server has not reached"
					}
					if stores != 0 {
						return "offset stored before the guard fired"
					}
					return ""
				}
				if out.Panicked {
					return "start-up fails although the checkpoint is not ahead of the server"
				}
				if stores != 1 {
					return fmt.Sprintf("offset stored %d times", stores)
				}
				return ""
			}, "panic ⇔ doc.SeqNo > high seqNo(vbID); else Store(vbID, offset) once")
		}
	}
	c.Floor(id, 1)
}

// fatalErr checks that the error of call reaches panic/return and that `cont` is dominated by err==nil.
func fatalErr(c *Ctx, id, construct string, call *ssa.Call, cont ssa.Instruction) {
	ers := errResults(call)
	if len(ers) == 0 {
		c.Fail(id, construct, call.Pos(), "the error result is discarded")
		return
	}
	sinks := errorSinks(ers[0])
	rep := false
	for _, s := range sinks {
		if s.Kind == "panic" || s.Kind == "return" {
			rep = true
		}
	}
	okCont := true
	if cont != nil {
		okCont = errGuard(cont.Block(), true, func(v ssa.Value) bool { return v == ers[0] })
	}
	if rep && okCont {
		c.OK(id, construct, call.Pos(), "error reaches %s; the continuation runs only under err==nil", sinkKinds(sinks))
	} else {
		c.Fail(id, construct, call.Pos(), "error reaches %s (continuation guarded by err==nil: %v) — start-up would proceed on a partial basis", sinkKinds(sinks), okCont)
	}
}

func c15r2(c *Ctx, id string) {
	w := c.W
	for _, ld := range w.implsOf("stream", "Checkpoint", "Load") {
		c.see(ld)
		sites := findLoadSites(c, id, ld)
		var firstRange ssa.Instruction
		for _, s := range sites {
			if firstRange == nil || dominatesInstr(s.rng, firstRange) {
				firstRange = s.rng
			}
		}
		for _, m := range []struct{ iface, method string }{{"Metadata", "Load"}, {"Client", "GetVBucketSeqNos"}} {
			found := false
			allInstrs(ld, func(in ssa.Instruction) {
				if call, ok := in.(*ssa.Call); ok && isInvokeOf(call.Common(), m.iface, m.method) {
					found = true
					// continuation: every load callback range
					var cont ssa.Instruction
					for _, s := range sites {
						cont = s.rng
						fatalErr(c, id, m.iface+"."+m.method+"→"+fname(s.closure), call, cont)
					}
				}
			})
			if !found {
				c.Fail(id, m.iface+"."+m.method+"@"+fname(ld), ld.Pos(), "the session load no longer calls %s.%s", m.iface, m.method)
			}
		}
		for _, s := range sites {
			allInstrs(s.closure, func(in ssa.Instruction) {
				if call, ok := in.(*ssa.Call); ok && isInvokeOf(call.Common(), "Client", "GetFailOverLogs") {
					fatalErr(c, id, "Client.GetFailOverLogs@"+fname(s.closure), call, s.store)
				}
			})
		}
	}
	// the bucket identity the checkpoints are stamped with: a configuration snapshot that cannot be read is fatal
	for _, fn := range w.ModFuncs {
		if fn.Pkg == nil || !strings.HasSuffix(fn.Pkg.Pkg.Path(), "/stream") {
			continue
		}
		allInstrs(fn, func(in ssa.Instruction) {
			call, ok := in.(*ssa.Call)
			if !ok || !isInvokeOf(call.Common(), "Client", "GetDcpAgentConfigSnapshot") {
				return
			}
			c.see(fn)
			var cont ssa.Instruction
			allInstrs(fn, func(x ssa.Instruction) {
				if cc := callOf(x); cc != nil && cc.StaticCallee() != nil && cc.StaticCallee().Name() == "BucketUUID" {
					cont = x
				}
			})
			fatalErr(c, id, "Client.GetDcpAgentConfigSnapshot@"+fname(fn), call, cont)
		})
	}
	// couchbase backend: xattr read
	cbl := w.Method("couchbase", "cbMetadata", "Load")
	c.need(cbl != nil, id, "couchbase.cbMetadata.Load")
	for _, f := range withAnon(cbl) {
		allInstrs(f, func(in ssa.Instruction) {
			call, ok := in.(*ssa.Call)
			if !ok || !isStaticCall(call.Common(), "/couchbase", "", "GetXattrs") {
				return
			}
			c.see(f)
			ers := errResults(call)
			if len(ers) == 0 {
				c.Fail(id, "GetXattrs@"+fname(f), in.Pos(), "error discarded")
				return
			}
			sinks := errorSinks(ers[0])
			hasPanic := false
			for _, s := range sinks {
				if s.Kind == "panic" {
					hasPanic = true
				}
			}
			// the store of the document is guarded by (err == nil || key-not-found)
			var store ssa.Instruction
			allInstrs(f, func(x ssa.Instruction) {
				if cc := callOf(x); cc != nil {
					if m, _ := csmapMethod(cc); m == "Store" {
						store = x
					}
				}
			})
			okStore := false
			if store != nil {
				// the store is reached only through tests on this very error (err == nil, or a classification of err)
				eo := w.Origin(ers[0])
				nPred := 0
				okStore = true
				for _, p := range store.Block().Preds {
					if len(p.Instrs) == 0 {
						continue
					}
					nPred++
					ifi, isIf := p.Instrs[len(p.Instrs)-1].(*ssa.If)
					if !isIf || !strings.Contains(w.Origin(ifi.Cond), eo) && !condMentions(ifi.Cond, ers[0]) {
						okStore = false
					}
				}
				if nPred == 0 {
					okStore = false
				}
				// and the panic is reached only when the error is non-nil
				for _, sk := range sinks {
					if sk.Kind == "panic" && !errGuardAnyNonNil(sk.In.Block()) {
						okStore = false
					}
				}
			}
			c.Check(hasPanic && okStore, id, "GetXattrs@"+fname(f), in.Pos(), "read errors other than key-not-found panic; the document is stored only on success or key-not-found", fmt.Sprintf("xattr read error handling: reaches %s, store guarded correctly: %v", sinkKinds(sinks), okStore))
		})
	}
	// Start: GetCollectionIDs
	for _, fn := range w.ModFuncs {
		if fname(fn) != "(*dcp.dcp).Start" {
			continue
		}
		c.see(fn)
		var newStream ssa.Instruction
		allInstrs(fn, func(in ssa.Instruction) {
			if cc := callOf(in); cc != nil && isStaticCall(cc, "/stream", "", "NewStream") {
				newStream = in
			}
		})
		allInstrs(fn, func(in ssa.Instruction) {
			if call, ok := in.(*ssa.Call); ok && isInvokeOf(call.Common(), "Client", "GetCollectionIDs") {
				fatalErr(c, id, "Client.GetCollectionIDs@"+fname(fn), call, newStream)
			}
		})
	}
	c.Floor(id, 6)
}

func c15r3(c *Ctx, id string) {
	w := c.W
	oa := w.Method("stream", "stream", "openAllStreams")
	os := w.Method("stream", "stream", "openStream")
	c.need(oa != nil && os != nil, id, "stream.openAllStreams / openStream")
	c.see(oa)
	nGo := 0
	allInstrs(oa, func(in ssa.Instruction) {
		g, ok := in.(*ssa.Go)
		if !ok {
			return
		}
		nGo++
		body := closureOf(g.Common().Value)
		if body == nil {
			body = g.Common().StaticCallee()
		}
		if body == nil {
			c.Undecided(id, "opener", in.Pos(), "cannot resolve the spawned opener")
			return
		}
		c.see(body)
		var call *ssa.Call
		allInstrs(body, func(x ssa.Instruction) {
			if cl, ok := x.(*ssa.Call); ok && cl.Common().StaticCallee() == os {
				call = cl
			}
		})
		if call == nil {
			c.Fail(id, "opener@"+fname(body), body.Pos(), "the spawned function does not open a stream")
			return
		}
		ers := errResults(call)
		sinks := errorSinks(ers[0])
		local := false
		recordedGuarded, recorded := true, false
		for _, s := range sinks {
			if s.Kind == "panic" && s.In.Parent() == body {
				local = true
			}
		}
		// stores of the error into a shared cell
		for _, r := range *ers[0].Referrers() {
			if st, ok := r.(*ssa.Store); ok && st.Val == ers[0] {
				recorded = true
				if !errGuard(st.Block(), false, func(v ssa.Value) bool { return v == ers[0] }) {
					recordedGuarded = false
				}
			}
		}
		// "panics" means on every failure: no way out of the opener under err != nil that is not the panic
		survives := ""
		if local {
			allInstrs(body, func(x ssa.Instruction) {
				if r, isR := x.(*ssa.Return); isR && x.Parent() == body && !deadBlock(x.Block()) {
					if !errGuard(r.Block(), true, func(v ssa.Value) bool { return v == ers[0] }) {
						survives = w.pos(lastPos(r.Block()))
					}
				}
			})
		}
		switch {
		case local && survives != "":
			c.Fail(id, "opener@"+fname(body), call.Pos(), "an openStream failure is fatal only for some errors: the opener can return (%s) although the open failed — the session starts without that vBucket and nothing re-opens a stream that never opened", survives)
		case local:
			c.OK(id, "opener@"+fname(body), call.Pos(), "an openStream error panics inside the opener")
		case recorded && recordedGuarded && reported(sinks):
			c.OK(id, "opener@"+fname(body), call.Pos(), "the error is recorded only when non-nil and reaches %s", sinkKinds(sinks))
		default:
			c.Fail(id, "opener@"+fname(body), call.Pos(), "an openStream failure is not fatal: the error reaches %s (recorded unconditionally: %v) — a later successful open can erase it and the session starts with a hole", sinkKinds(sinks), recorded && !recordedGuarded)
		}
		// Done only after success
		allInstrs(body, func(x ssa.Instruction) {
			if cc := callOf(x); cc != nil && isStaticCall(cc, "sync", "WaitGroup", "Done") {
				if _, isDefer := x.(*ssa.Defer); isDefer {
					return
				}
				okd := errGuard(x.Block(), true, func(v ssa.Value) bool { return v == ers[0] }) || !local
				c.Check(okd, id, "done-after-success@"+fname(body), x.Pos(), "Done is reached only after a successful open", "Done is signalled although the open failed")
			}
		})
		// the vbID opened is the loop's element
		arg := ""
		for _, a := range call.Common().Args[1:] {
			if isUint16(a.Type()) {
				arg = w.Origin(a)
			}
		}
		c.Check(strings.HasPrefix(arg, "param("), id, "opener-arg@"+fname(body), call.Pos(), "opens its own vbID parameter "+arg, "opener opens "+arg)
	})
	if nGo != 1 {
		c.Undecided(id, "spawn", oa.Pos(), "%d go statements in openAllStreams (expected 1 inside the loop)", nGo)
	}
	// WaitGroup protocol
	var add, wait ssa.Instruction
	allInstrs(oa, func(in ssa.Instruction) {
		if cc := callOf(in); cc != nil {
			if isStaticCall(cc, "sync", "WaitGroup", "Add") {
				add = in
			}
			if isStaticCall(cc, "sync", "WaitGroup", "Wait") {
				wait = in
			}
		}
	})
	okWG := add != nil && wait != nil && w.Origin(callOf(add).Args[1]) == "len(param("+sliceParamName(oa)+"))" && len(guardsOf(wait.Block())) <= 1
	if okWG {
		// Wait precedes every return
		allInstrs(oa, func(in ssa.Instruction) {
			if _, isRet := in.(*ssa.Return); isRet && !dominatesInstr(wait, in) {
				okWG = false
			}
		})
	}
	c.Check(okWG, id, "waitgroup@"+fname(oa), oa.Pos(), "Add(len(vbIDs)) … Wait() before returning", "WaitGroup protocol broken: Open could proceed before every stream was opened")
}

func c15r4(c *Ctx, id string) {
	w := c.W
	check := func(fnName string, conds []string, what string, alsoUnder ...string) {
		// the selection may live in the named function or in a helper extracted from it: accept any module
		// function of the same package that contains a panic reached exactly when none of the tests holds
		var home *ssa.Function
		for _, f := range w.ModFuncs {
			if fname(f) == fnName {
				home = f
			}
		}
		if home == nil {
			c.Undecided(id, "switch:"+what, 0, "function %s not found", fnName)
			return
		}
		ok := false
		var seen []string
		for _, fn := range w.ModFuncs {
			if pkgOfFn(fn) != pkgOfFn(home) {
				continue
			}
			if fn != home && !isHelperOf(w, home, rootFn(fn)) {
				continue
			}
			allInstrs(fn, func(in ssa.Instruction) {
				if !isPanicLike(in) {
					return
				}
				gs := guardsOf(in.Block())
				matched := 0
				for _, want := range conds {
					for _, g := range gs {
						v, pol := stripNot(g.Cond, g.Branch)
						o := w.Origin(v)
						if strings.Contains(o, want) && !pol {
							matched++
							break
						}
					}
				}
				// … and under nothing else: a panic deeper inside one of the branches (a later failure that is fatal too) is
				// guarded by the tests as well, but is not the refusal of the selection
				extra := 0
				for _, g := range gs {
					v, _ := stripNot(g.Cond, g.Branch)
					o := w.Origin(v)
					isTest := false
					for _, want := range conds {
						if strings.Contains(o, want) {
							isTest = true
						}
					}
					for _, a := range alsoUnder { // the selection as a whole may be conditional (nothing was handed in)
						if strings.Contains(fmt.Sprintf("%v:%s", g.Branch, w.Origin(g.Cond)), a) {
							isTest = true
						}
					}
					if !isTest && freeConfigCond(w, g.Cond) == "" {
						extra++
					}
				}
				if matched == len(conds) && extra == 0 {
					ok = true
					c.see(fn)
				}
				var s []string
				for _, g := range gs {
					s = append(s, fmt.Sprintf("%v:%s", g.Branch, w.Origin(g.Cond)))
				}
				seen = append(seen, "["+strings.Join(s, " ∧ ")+"]")
			})
		}
		c.Check(ok, id, "switch:"+what, home.Pos(), "the no-match path panics", "no panic is reached exactly when none of "+strings.Join(conds, ", ")+" holds; panics seen under "+strings.Join(seen, " "))
	}
	check("(*dcp.dcp).Start", []string{"IsCouchbaseMetadata)", "IsFileMetadata)"}, "metadata", "true:(recv.metadata == const(nil))", "false:(recv.metadata != const(nil))")
	check("stream.NewVBucketDiscovery", []string{`== const("static")`, `== const("couchbase")`, `== const("kubernetesStatefulSet")`, `== const("kubernetesHa")`, `== const("dynamic")`}, "membership")
	check("(*stream.leaderElection).Start", []string{`.LeaderElection.Type == const("kubernetes")`}, "leader-election")
	// the metadata backends themselves refuse a mismatching type
	check("couchbase.NewCBMetadata", []string{"IsCouchbaseMetadata)"}, "cb-metadata-ctor")
	check("metadata.NewFSMetadata", []string{"IsFileMetadata)"}, "file-metadata-ctor")
	// the Couchbase membership keeps its documents where the Couchbase metadata settings say: no such settings, no membership
	check("couchbase.NewCBMembership", []string{"IsCouchbaseMetadata)"}, "cb-membership-ctor")
}

func c15r5(c *Ctx, id string) {
	w := c.W
	var found bool
	for _, site := range asyncSites(w) {
		if site.Op == "GetVbucketSeqnos" { // (the operation, wherever the wrapper keeps it)
			found = true
			checkOutcomeIsServers(c, id, site)
		}
	}
	if !found {
		c.Undecided(id, "GetVBucketSeqNos", 0, "no asynchronous gocbcore call found in GetVBucketSeqNos")
	}
}

// condMentions: the condition is computed from v (through calls taking it as an argument, comparisons, field reads of errors.As targets fed by it).
func condMentions(cond, v ssa.Value) bool {
	seen := map[ssa.Value]bool{}
	var rec func(x ssa.Value, d int) bool
	rec = func(x ssa.Value, d int) bool {
		if x == nil || seen[x] || d > 8 {
			return false
		}
		seen[x] = true
		if x == v {
			return true
		}
		if in, ok := x.(ssa.Instruction); ok {
			for _, op := range in.Operands(nil) {
				if *op != nil && rec(*op, d+1) {
					return true
				}
			}
		}
		// a value loaded from a cell that errors.As filled from v
		if u, ok := x.(*ssa.UnOp); ok {
			if fa, ok := u.X.(*ssa.FieldAddr); ok {
				if ld, ok := fa.X.(*ssa.UnOp); ok {
					if al, ok := ld.X.(*ssa.Alloc); ok {
						for _, r := range *al.Referrers() {
							if ci, ok := r.(ssa.CallInstruction); ok {
								for _, a := range ci.Common().Args {
									if rec(a, d+1) {
										return true
									}
								}
							}
							if mi, ok := r.(*ssa.MakeInterface); ok {
								for _, rr := range *mi.Referrers() {
									if ci, ok := rr.(ssa.CallInstruction); ok {
										for _, a := range ci.Common().Args {
											if a != ssa.Value(mi) && rec(a, d+1) {
												return true
											}
										}
									}
								}
							}
						}
					}
				}
			}
		}
		return false
	}
	return rec(cond, 0)
}

// errGuardAnyNonNil: the block runs only when some error value is known to be non-nil, or under the
// negation of a test that is true for nil errors.
func errGuardAnyNonNil(b *ssa.BasicBlock) bool {
	if errGuard(b, false, func(v ssa.Value) bool { return types.Implements(v.Type(), errorIface()) }) {
		return true
	}
	// `if err == nil || classify(err) {store} else {panic}`: the panic sits on the false edges of both tests
	for _, g := range guardsOf(b) {
		v, pol := stripNot(g.Cond, g.Branch)
		if eq, ok := isNilCompare(v, func(x ssa.Value) bool { return types.Implements(x.Type(), errorIface()) }); ok && eq != pol {
			return true
		}
	}
	return false
}

func c15r8(c *Ctx, id string) {
	w := c.W
	os := w.Method("stream", "stream", "openStream")
	c.need(os != nil, id, "stream.openStream")
	c.see(os)
	isLookupFlag := func(v ssa.Value) bool {
		ex, isEx := v.(*ssa.Extract)
		if !isEx || ex.Index != 1 {
			return false
		}
		call, isCall := ex.Tuple.(*ssa.Call)
		if !isCall {
			return false
		}
		m, recv := csmapMethod(call.Common())
		return m == "Load" && w.isOffsetMap(recv.Type())
	}
	// the lookup may sit in a helper that returns (position, error): its error is non-nil exactly when the lookup missed
	isLookupErr := func(v ssa.Value) bool {
		ex, isEx := unwrap(v).(*ssa.Extract)
		if !isEx {
			return false
		}
		call, isCall := ex.Tuple.(*ssa.Call)
		if !isCall || call.Common().IsInvoke() {
			return false
		}
		h := call.Common().StaticCallee()
		if h == nil || h.Blocks == nil || !w.inModule(h) {
			return false
		}
		res := h.Signature.Results()
		if res.Len() < 2 || ex.Index != res.Len()-1 || !types.Identical(res.At(ex.Index).Type(), types.Universe.Lookup("error").Type()) {
			return false
		}
		okAll, nFail, nOK := true, 0, 0
		allInstrs(h, func(in ssa.Instruction) {
			r, isR := in.(*ssa.Return)
			if !isR || len(r.Results) != res.Len() {
				return
			}
			if isNilConst(r.Results[len(r.Results)-1]) {
				nOK++
				if !guardedBy(in.Block(), true, isLookupFlag) {
					okAll = false
				}
			} else {
				nFail++
				if !guardedBy(in.Block(), false, isLookupFlag) {
					okAll = false
				}
			}
		})
		return okAll && nFail > 0 && nOK > 0
	}
	missingAt := func(b *ssa.BasicBlock) bool {
		return guardedBy(b, false, isLookupFlag) || errGuard(b, false, isLookupErr)
	}
	foundAt := func(b *ssa.BasicBlock) bool {
		return guardedBy(b, true, isLookupFlag) || errGuard(b, true, isLookupErr)
	}
	n := 0
	allInstrs(os, func(in ssa.Instruction) {
		r, ok := in.(*ssa.Return)
		if !ok || len(r.Results) != 1 {
			return
		}
		if !missingAt(in.Block()) {
			return
		}
		n++
		o := w.Origin(r.Results[0])
		c.Check(o != "const(nil)" && !strings.HasPrefix(o, "φ"), id, "missing-position@"+fname(os), in.Pos(), "returns "+o, "openStream returns "+o+" when the vBucket has no position: the session would silently run without that vBucket")
	})
	if n == 0 {
		c.Fail(id, "missing-position@"+fname(os), os.Pos(), "openStream has no failing return for a vBucket without a position")
	}
	// and the request itself is made only with a position that was found
	allInstrs(os, func(in ssa.Instruction) {
		cc := callOf(in)
		if cc == nil || !isInvokeOf(cc, "Client", "OpenStream") {
			return
		}
		c.Check(foundAt(in.Block()), id, "request-with-position@"+fname(os), in.Pos(), "Client.OpenStream is called only when the position lookup succeeded", "Client.OpenStream is called on a path where the position lookup did not succeed")
	})
}

// sliceParamName: the name of fn's (last) slice-typed parameter.
func sliceParamName(fn *ssa.Function) string {
	name := ""
	for _, p := range fn.Params {
		if _, ok := p.Type().Underlying().(*types.Slice); ok {
			name = p.Name()
		}
	}
	return name
}
