package main

import (
	"fmt"
	"go/token"
	"go/types"
	"sort"
	"strings"

	"golang.org/x/tools/go/ssa"
)

func init() {
	register(&Property{
		ID: "C19",
		Explanation: "Decides the health checker's round semantics and stoppability: (R1) one round, evaluated for all 2^5 ping outcomes × every point at which Stop can land in a retry wait: it returns at the first success without further pings, panics exactly when the fifth consecutive ping fails, and issues no ping after a cancelled wait; the round keeps no state between rounds (any dependence on a receiver field makes the evaluation undecided); " +
			"(R2) every blocking operation in run/performHealthCheck other than Ping is a select that includes ctx.Done() — no bare sleep; (R3) the whole bodies of Start and Stop are inside their Once.Do, wg.Add(1) precedes `go run`, run defers wg.Done first, Stop cancels and then waits, and the Once fields are never reassigned. " +
			"NOT decided: wall-clock promptness (bounded by HealthCheck.Timeout of an in-flight ping).",
		Assumptions: []string{"Client.Ping returns by its own timeout (C20)"},
		Rules: []RuleDef{
			{ID: "C19.R14", Text: "a failed ping is reported, not fatal: what runs in the ping completion divides by nothing that may be zero (every integer division by a non-constant runs only where the divisor was tested non-zero) (same rule as C20.R21)", Run: noUnguardedDivision},
			{ID: "C19.R13", Text: "a ping that timed out does not crash the process when its answer arrives late: the channel closes of the module are inside a sync.Once body or among the confirmed ones — the operation record never closes the channel its completion signals on (same rule as C20.R22)", Run: channelClosesKnown},
			{ID: "C19.R1", Text: "round: return at the first successful ping; panic ⇔ five consecutive failures; after a cancelled wait no further ping; no state carried between rounds", Run: c19r1},
			{ID: "C19.R11", Text: "the interval and timeout the checker runs with are the configured ones: defaulting never rewrites a configured option (same rule as C17.R1)", Run: c17r1},
			{ID: "C19.R10", Text: "the rounds keep coming at the configured interval: the ticker that paces them is created with config.Interval, only its channel is read and its Stop deferred — nothing stops, resets or is handed it", Run: roundTickerUntouched},
			{ID: "C19.R2", Text: "every wait is cancellable: blocking operations in run/performHealthCheck are selects with a ctx.Done() case; no time.Sleep", Run: c19r2},
			{ID: "C19.R5", Text: "Stop undoes a Start that has happened: HealthCheck.Start is a plain synchronous call of the client's start path, never deferred to a timer, goroutine or function value", Run: healthStartPlain},
			{ID: "C19.R6", Text: "a ping's answer is that ping's answer: NewHealthCheck wires the client it was given into the checker unchanged (no adapter between the round and Client.Ping)", Run: constructorWiring(wireHealth)},
			{ID: "C19.R7", Text: "the checker runs ⇔ it is enabled, and is stopped by close: the client's start and close paths call by call: the stream is opened, the listener subscribed (failure fatal), each optional component started and stopped under exactly its configuration switch (polarity included), Commit is Stream.Save, SetMetadata installs the supplied store, newDcp applies the defaults first and returns every error", Run: clientWiring},
			{ID: "C19.R8", Text: "nothing the checker starts outlives or blocks Stop: every background loop has a stop that the close path reaches (same rule as C13.R3)", Run: c13r3},
			{ID: "C19.R9", Text: "the fifth failure terminates the process: no recover() anywhere in the module (same rule as C15.R23)", Run: neverRecovers},
			{ID: "C19.R12", Text: "what counts as an answered ping: the endpoint pickers of the Ping callback hand out an entry's address only after seeing its Error nil and its State PingStateOK, and the empty string otherwise — a node that refused, timed out or is degraded does not count as healthy", Run: endpointsAreHealthy},
			{ID: "C19.R4", Text: "what counts as a failed ping: Client.Ping reports an error unless both the data and the management service answered (same rule as C20.R5)", Run: pingOutcome},
			{ID: "C19.R3", Text: "Start/Stop entirely inside Once.Do; wg.Add(1) before go run; run defers wg.Done; Stop = cancel then wg.Wait; Once fields never reassigned", Run: c19r3},
		},
	})
}

func c19r1(c *Ctx, id string) {
	w := c.W
	fn := w.Method("couchbase", "healthCheck", "performHealthCheck")
	c.need(fn != nil, id, "couchbase.healthCheck.performHealthCheck")
	recv := fn.Params[0].Name()
	pings := map[*State]int{}
	selName := "select@" + fname(fn)
	const maxAttempts = 7
	h := &Harness{Fn: fn, Choices: map[string]int{"pattern": 1 << maxAttempts, "cancelAt": maxAttempts}, Quiet: quietLog, MaxSteps: 6000, Args: bundleArgs(w, fn),
		// only patterns whose outcome is decided within the first 5 attempts, plus the all-fail tails, need distinct states:
		Valid: func(st *State) bool { return st.C("pattern") < 1<<5 || st.C("pattern") == 1<<maxAttempts-1 },
		Oracle: func(st *State, name string, args []AV, res *types.Tuple) ([]AV, bool) {
			if name == recv+".client.Ping" {
				k := pings[st]
				pings[st]++
				if k < maxAttempts && st.C("pattern")&(1<<k) != 0 {
					return []AV{avOpaque{"ping result"}, avIface{sym: "pingErr"}}, true
				}
				return []AV{avOpaque{"ping result"}, avIface{isNil: true}}, true
			}
			return nil, false
		},
		SelectChoice: func(st *State, name string, nth int) int {
			// case order is read from the effect; here: cancelAt == nth+1 selects the ctx.Done case (index resolved in the spec)
			if st.C("cancelAt") == nth+1 {
				return -1 // resolved below
			}
			return -2
		},
	}
	// resolve the index of the ctx.Done case from the select statement itself
	// (the wait may live in a helper the round calls; the evaluator inlines it)
	doneIdx := -1
	var others []int // every other case of the wait: whichever of them wakes the round, the count must go on
	for f := range w.syncCallees(fn, 2, true) {
		allInstrs(f, func(in ssa.Instruction) {
			if s, ok := in.(*ssa.Select); ok {
				for i, stt := range s.States {
					if strings.HasSuffix(w.Origin(stt.Chan), ".Done)()") {
						doneIdx = i
					} else {
						others = append(others, i)
					}
				}
			}
		})
	}
	if doneIdx < 0 || len(others) == 0 {
		c.Fail(id, fname(fn), fn.Pos(), "the retry wait is not a select over ctx.Done() and a timer")
		return
	}
	h.Choices["wake"] = len(others)
	h.SelectChoice = func(st *State, name string, nth int) int {
		if st.C("cancelAt") == nth+1 {
			return doneIdx
		}
		return others[st.C("wake")]
	}
	_ = selName
	c.oae(id, fname(fn), fn.Pos(), h, func(st *State, out *Outcome) string {
		np := 0
		for _, e := range out.Trace {
			if e.Name == recv+".client.Ping" {
				np++
			}
		}
		// reference semantics
		pat, cancelAt := st.C("pattern"), st.C("cancelAt")
		wantPings, wantPanic := 0, false
		for a := 1; a <= 5; a++ {
			wantPings++
			if pat&(1<<(a-1)) == 0 {
				break // success
			}
			if a == 5 {
				wantPanic = true
				break
			}
			if cancelAt == a {
				break // Stop landed in the wait after attempt a
			}
		}
		if np != wantPings {
			return fmt.Sprintf("%d pings issued, expected %d", np, wantPings)
		}
		if out.Panicked != wantPanic {
			return fmt.Sprintf("terminates the process: %v, expected %v", out.Panicked, wantPanic)
		}
		return ""
	}, "pings until the first success; panic ⇔ 5 consecutive failures; stop in a retry wait ends the round without another ping")
}

func c19r2(c *Ctx, id string) {
	w := c.W
	for _, name := range []string{"run", "performHealthCheck"} {
		fn := w.Method("couchbase", "healthCheck", name)
		if fn == nil {
			c.Undecided(id, name, 0, "healthCheck.%s not found", name)
			continue
		}
		c.see(fn)
		var bad, badCtx []string
		nSel := 0
		// the function together with the helpers it calls synchronously; the round is judged on its own, not again as
		// part of run
		unit := w.syncCallees(fn, 2, true)
		if name == "run" {
			if php := w.Method("couchbase", "healthCheck", "performHealthCheck"); php != nil {
				for f := range w.syncCallees(php, 2, true) {
					delete(unit, f)
				}
			}
		}
		var fns []*ssa.Function
		for f := range unit {
			fns = append(fns, f)
		}
		sort.Slice(fns, func(i, j int) bool { return fname(fns[i]) < fname(fns[j]) })
		each := func(visit func(ssa.Instruction)) {
			for _, f := range fns {
				allInstrs(f, visit)
			}
		}
		each(func(in ssa.Instruction) {
			switch x := in.(type) {
			case *ssa.Select:
				nSel++
				has := false
				for _, st := range x.States {
					if o := w.Origin(st.Chan); strings.HasSuffix(o, ".Done)()") {
						has = true
						// the stop context itself, handed down unchanged: a derived context (WithTimeout, WithDeadline, a
						// second WithCancel) has an expiry or cancellation of its own that the wait cannot tell from Stop
						if !(strings.HasPrefix(o, "call(param(") && strings.Count(o, "(") == 3) {
							badCtx = append(badCtx, o+" @"+w.pos(in.Pos()))
						}
					}
				}
				if !has || !x.Blocking {
					bad = append(bad, "select without ctx.Done() @"+w.pos(in.Pos()))
				}
			case *ssa.UnOp:
				if x.Op == token.ARROW {
					bad = append(bad, "bare channel receive @"+w.pos(in.Pos()))
				}
			case *ssa.Send:
				bad = append(bad, "channel send @"+w.pos(in.Pos()))
			case *ssa.Call:
				n := calleeName(x.Common())
				if n == "time.Sleep" || strings.HasSuffix(n, "WaitGroup).Wait") || strings.HasSuffix(n, "Mutex).Lock") {
					bad = append(bad, n+" @"+w.pos(in.Pos()))
				}
			}
		})
		// helpers inside the unit receive the same context
		for _, f := range fns {
			for _, g := range fns {
				for _, ci := range callsIn(f, g) {
					for _, a := range ci.Common().Args {
						if types.TypeString(a.Type(), nil) == "context.Context" {
							if o := w.Origin(a); !strings.HasPrefix(o, "param(") {
								badCtx = append(badCtx, "helper "+fname(g)+" is handed "+o+" @"+w.pos(ci.Pos()))
							}
						}
					}
				}
			}
		}
		c.Check(len(badCtx) == 0, id, "stop-context@"+fname(fn), fn.Pos(), "every wait selects on the Done() of the context parameter handed down from Start (the one Stop cancels)", "a wait selects on a derived context whose own expiry ends the round as if Stop had been called: "+strings.Join(badCtx, ", "))
		c.Check(len(bad) == 0 && nSel == 1, id, "waits@"+fname(fn), fn.Pos(), "the only blocking construct is a select with a ctx.Done() case", "uncancellable wait: "+strings.Join(bad, ", ")+fmt.Sprintf(" (%d selects)", nSel))
	}
	// run: a cancelled context ends the loop
	run := w.Method("couchbase", "healthCheck", "run")
	if run != nil {
		// the round is handed run's own context — the one Stop cancels — and no derived context whose expiry the
		// round would mistake for a Stop (ending the round silently instead of counting the failures)
		if php := w.Method("couchbase", "healthCheck", "performHealthCheck"); php != nil {
			k := 0
			for f := range w.syncCallees(run, 1, false) {
				for _, ci := range callsIn(f, php) {
					k++
					o := w.Origin(ci.Common().Args[1])
					okCtx := o == "param("+run.Params[1].Name()+")" && f == run
					if p, isP := unwrap(ci.Common().Args[1]).(*ssa.Parameter); isP && f != run {
						// the call sits in a helper of run: the helper's context parameter is judged at run's call of it
						okCtx = true
						sites := callsIn(run, f)
						for _, s := range sites {
							if w.Origin(argOfParam(s.Common(), f, p)) != "param("+run.Params[1].Name()+")" {
								okCtx = false
							}
						}
						okCtx = okCtx && len(sites) > 0
					}
					c.Check(okCtx, id, fmt.Sprintf("round-context#%d", k), ci.Pos(), "the round runs under run's own context", "the round runs under "+o+", not under the context that Stop cancels: its expiry is indistinguishable from a Stop and ends a failing round without consequence")
				}
			}
			if k == 0 {
				c.Undecided(id, "round-context", run.Pos(), "run does not call performHealthCheck")
			}
		}
		ok := false
		allInstrs(run, func(in ssa.Instruction) {
			if _, isRet := in.(*ssa.Return); isRet {
				for _, g := range guardsOf(in.Block()) {
					if strings.Contains(w.Origin(g.Cond), "Select#0 == const(") {
						ok = true
					}
				}
			}
		})
		var sel *ssa.Select
		allInstrs(run, func(in ssa.Instruction) {
			if s, isS := in.(*ssa.Select); isS {
				sel = s
			}
		})
		if sel != nil {
			// the returning case is the ctx.Done one
			di := -1
			for i, st := range sel.States {
				if strings.HasSuffix(w.Origin(st.Chan), ".Done)()") {
					di = i
				}
			}
			ok2 := false
			allInstrs(run, func(in ssa.Instruction) {
				if _, isRet := in.(*ssa.Return); isRet {
					for _, g := range guardsOf(in.Block()) {
						if g.Branch && strings.HasSuffix(w.Origin(g.Cond), fmt.Sprintf("== const(%d))", di)) {
							ok2 = true
						}
					}
				}
			})
			ok = ok2
		}
		c.Check(ok, id, "run-exit", run.Pos(), "run returns when ctx.Done() fires", "run does not return on ctx.Done()")
	}
}

func c19r3(c *Ctx, id string) {
	w := c.W
	hc := w.NamedType("couchbase", "healthCheck")
	c.need(hc != nil, id, "couchbase.healthCheck")
	run := w.Method("couchbase", "healthCheck", "run")
	c.need(run != nil, id, "healthCheck.run")
	for _, name := range []string{"Start", "Stop"} {
		fn := w.Method("couchbase", "healthCheck", name)
		if fn == nil {
			c.Undecided(id, name, 0, "healthCheck.%s not found", name)
			continue
		}
		c.see(fn)
		// the only call is Once.Do on the matching field
		var calls []ssa.Instruction
		allInstrs(fn, func(in ssa.Instruction) {
			if callOf(in) != nil {
				calls = append(calls, in)
			}
		})
		okOnce := len(calls) == 1 && isStaticCall(callOf(calls[0]), "sync", "Once", "Do") && len(guardsOf(calls[0].Block())) == 0
		var body *ssa.Function
		onceField := ""
		if okOnce {
			body = closureOf(callOf(calls[0]).Args[1])
			onceField = w.Origin(callOf(calls[0]).Args[0])
			okOnce = body != nil
			// no stores outside Do
			allInstrs(fn, func(in ssa.Instruction) {
				if st, ok := in.(*ssa.Store); ok {
					if _, isAlloc := st.Addr.(*ssa.Alloc); !isAlloc {
						okOnce = false
					}
				}
			})
		}
		c.Check(okOnce, id, "once:"+name, fn.Pos(), "whole body inside "+onceField+".Do", name+" does work outside its Once.Do (repeated calls are not harmless)")
		if body == nil {
			continue
		}
		c.see(body)
		if name == "Start" {
			var add, gorun ssa.Instruction
			allInstrs(body, func(in ssa.Instruction) {
				cc := callOf(in)
				if cc == nil {
					return
				}
				if isStaticCall(cc, "sync", "WaitGroup", "Add") && w.Origin(cc.Args[1]) == "const(1)" {
					add = in
				}
				if g, ok := in.(*ssa.Go); ok && g.Common().StaticCallee() == run {
					gorun = in
				}
			})
			okS := add != nil && gorun != nil && dominatesInstr(add, gorun)
			// the cancel func stored is the one of the context handed to run
			okCtx := false
			if gorun != nil {
				ctxArg := w.Origin(callOf(gorun).Args[1])
				allInstrs(body, func(in ssa.Instruction) {
					if st, ok := in.(*ssa.Store); ok && strings.HasSuffix(w.Origin(st.Addr), ".cancelFunc") {
						okCtx = strings.TrimSuffix(w.Origin(st.Val), "#1") == strings.TrimSuffix(ctxArg, "#0") && strings.Contains(ctxArg, "context.WithCancel")
					}
				})
			}
			c.Check(okS && okCtx, id, "start-join", body.Pos(), "wg.Add(1) precedes go run(ctx); the stored cancel func belongs to that ctx", fmt.Sprintf("Start protocol broken (Add before go: %v, cancel func of the run context stored: %v)", okS, okCtx))
		} else {
			var cancel, wait ssa.Instruction
			allInstrs(body, func(in ssa.Instruction) {
				cc := callOf(in)
				if cc == nil {
					return
				}
				if !cc.IsInvoke() && cc.StaticCallee() == nil && strings.HasSuffix(w.Origin(cc.Value), ".cancelFunc") {
					cancel = in
				}
				if isStaticCall(cc, "sync", "WaitGroup", "Wait") {
					wait = in
				}
			})
			okT := cancel != nil && wait != nil && len(guardsOf(wait.Block())) == 0
			if okT {
				// cancel precedes wait on every path where a cancel func exists
				okT = !existsEntryPathAvoidingEdges(body, wait, func(in ssa.Instruction) bool { return in == cancel }, func(ifi *ssa.If, succ int) bool {
					v, pol := stripNot(ifi.Cond, succ == 0)
					eq, ok := isNilCompare(v, func(x ssa.Value) bool { return strings.HasSuffix(w.Origin(x), ".cancelFunc") })
					return ok && eq == pol // the edge on which cancelFunc is nil (never started)
				})
			}
			c.Check(okT, id, "stop-join", body.Pos(), "Stop cancels the context, then waits for run to return", "Stop does not cancel and then join the goroutine")
		}
	}
	// run defers wg.Done first
	var first ssa.Instruction
	for _, in := range run.Blocks[0].Instrs {
		if callOf(in) != nil {
			first = in
			break
		}
	}
	d, isDefer := first.(*ssa.Defer)
	c.Check(isDefer && isStaticCall(d.Common(), "sync", "WaitGroup", "Done"), id, "run-done", run.Pos(), "run defers wg.Done before anything else", "run does not start by deferring wg.Done")
	// Once fields are never reassigned
	st := hc.Underlying().(*types.Struct)
	nOnce := 0
	var flds []*types.Var
	var collect func(t *types.Struct)
	collect = func(t *types.Struct) { // the checker's own fields, and those of parts embedded by value
		for i := 0; i < t.NumFields(); i++ {
			flds = append(flds, t.Field(i))
			if embeddedPart(t.Field(i)) {
				if inner, ok := t.Field(i).Type().Underlying().(*types.Struct); ok {
					collect(inner)
				}
			}
		}
	}
	collect(st)
	for _, f := range flds {
		if n, ok := f.Type().(*types.Named); !ok || n.Obj().Name() != "Once" {
			continue
		}
		nOnce++
		stores := w.fieldStores(f)
		c.Check(len(stores) == 0, id, "once-immutable:"+f.Name(), f.Pos(), "never reassigned", fmt.Sprintf("%s is reassigned (%d sites): a later Start creates a goroutine no Stop can cancel", f.Name(), len(stores)))
	}
	if nOnce != 2 {
		c.Undecided(id, "once-fields", 0, "%d sync.Once fields in healthCheck (expected 2)", nOnce)
	}
}
