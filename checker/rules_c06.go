package main

import (
	"fmt"
	"go/types"
	"strings"

	"golang.org/x/tools/go/ssa"
)

func init() {
	register(&Property{
		ID: "C06",
		Explanation: "Decides that every offset the library builds is one untorn resume point: (R1) in each snapshot-bound handler the delivery is dominated by the true branch of the membership check applied to the very value that becomes Offset.SeqNo, the snapshot and vbUUID are read from the observer inside that region, and SeqNoAdvanced builds [s,s]/s from one value; " +
			"(R2) the membership check returns true iff a snapshot is present and Start ≤ seq ≤ End, panics otherwise and never returns false (exhaustive over the order abstraction); " +
			"(R3) snapshot markers and offsets are replaced, never mutated: no in-place store to their fields module-wide and every assignment of observer.currentSnapshot is a fresh literal; " +
			"(R4) the branch id is written only by SetVbUUID, called only under err==nil of an open-stream callback with failOverLogs[0].VbUUID; (R5) the persisted document is built field by field from one offset (C02.R2); (R7) the snapshot-announcing handlers install the snapshot iff the gate passes and under no other condition (exhaustive). " +
			"Not decided: whether the server's markers are themselves well-formed.",
		Assumptions: []string{"gocbcore delivers the snapshot marker of a snapshot before its items on the same goroutine"},
		Rules: []RuleDef{
			{ID: "C06.R19", Text: "an event is tested against the snapshot announced on its own stream: every observer put into the observer map is the result of the observer constructor called there — no observer is carried over a Close with the snapshot, branch id or catch-up state of the earlier stream", Run: observersFreshPerOpen},
			{ID: "C06.R1", Text: "delivery is dominated by IsInSnapshotMarker(x)=true for the x that becomes Offset.SeqNo; SnapshotMarker ← observer.currentSnapshot, VbUUID ← observer.vbUUID; SeqNoAdvanced builds [s,s] and SeqNo s from one value", Run: c06r1},
			{ID: "C06.R2", Text: "IsInSnapshotMarker: true ⇔ snapshot≠nil ∧ Start ≤ seq ≤ End; panic otherwise; never returns false", Run: c06r2},
			{ID: "C06.R3", Text: "replace, never mutate: no in-place store to SnapshotMarker/Offset fields; every store to observer.currentSnapshot assigns a freshly allocated literal built from the event", Run: c06r3},
			{ID: "C06.R4", Text: "observer.vbUUID is written only by SetVbUUID, which is called only under err==nil of an open-stream callback with failOverLogs[0].VbUUID", Run: c06r4},
			{ID: "C06.R6", Text: "the snapshot in effect is the announced one: markers and seqno-advanced events pass the gate as control events (never dropped by the catch-up filter), data events never do; the initial position of a fresh session carries the newest branch id (same rules as C07.R1 control flags, C02.R4)", Run: func(c *Ctx, id string) {
				gateArgsRule(c, id, observerInfo(c, id))
				c02r4(c, id)
			}},
			{ID: "C06.R7", Text: "the announced snapshot is installed under exactly the gate: the marker and seqno-advanced handlers assign currentSnapshot (and hand the event on once) ⇔ canForward, independent of any other observer state", Run: markerInstall},
			{ID: "C06.R8", Text: "the resume request carries the tracked offset itself: openStream hands Client.OpenStream the position and observer stored under the same vBucket id, unmodified (same rule as C12.R3, open arguments)", Run: c12r3},
			{ID: "C06.R9", Text: "no mixture across vBuckets: every position move is made with the vBucket id and offset of one and the same event (same rule as C01.R3)", Run: c01r3},
			{ID: "C06.R10", Text: "tracked offsets are offsets of events: every call of the position writer is an acknowledgement or an absorption of an event's own offset — no synthetic position is ever stored (same rule as C01.R2)", Run: c01r2},
			{ID: "C06.R11", Text: "a loaded checkpoint is a whole document: the map wrapper installs decoded entries only when the entire input decoded, and forwards faithfully otherwise (same rule as C04.R9)", Run: wrapperFaithful},
			{ID: "C06.R12", Text: "offsets carry the branch the stream was opened on: SetVbUUID stores its parameter into observer.vbUUID unconditionally", Run: setterStores},
			{ID: "C06.R13", Text: "what is persisted is the document Save built: the backends marshal the document they are given under the id of the same vBucket and keep nothing from an earlier file or another encoding (same rule as C01.R6)", Run: c01r6},
			{ID: "C06.R14", Text: "no offset is handed on for an event that did not pass the snapshot test of its own handler: every event wrapper is built by the stream-observer handler of its own kind from the event it received (same rule as C03.R4)", Run: c03r4},
			{ID: "C06.R15", Text: "a loaded checkpoint is the one stored for that vBucket: the file backend returns the decoded file under the keys it was written with (no re-keying by position), an empty document per requested vBucket when there is no file (same rule as C02.R15)", Run: fileLoadExact},
			{ID: "C06.R16", Text: "a server event outside its announced snapshot stops the client: the module never recovers a panic (same rule as C15.R23)", Run: neverRecovers},
			{ID: "C06.R17", Text: "the fail-over log and sequence numbers a resume point is built from are the current answers of the server: no caching layer in front of the client (same rules as C20.R19 and C20.R20)", Run: func(c *Ctx, id string) { decoratorsTransparent()(c, id); noNewLayers(c, id) }},
			{ID: "C06.R18", Text: "the tracked tuple stays on the branch the stream is on: the position writer never stores an offset below the tracked one, whatever the branch ids of the two — a late acknowledgement of the old branch cannot replace the tuple of the new one (same rule as C04.R1)", Run: c04r1},
			{ID: "C06.R5", Text: "the persisted document is built field by field from one offset (same rule as C02.R2)", Run: c02r2},
		},
	})
}

func c06r1(c *Ctx, id string) {
	w := c.W
	oi := observerInfo(c, id)
	off := w.NamedType("models", "Offset")
	sm := w.NamedType("models", "SnapshotMarker")
	n := 0
	for _, name := range sortedKeys(oi.handlers) {
		h := oi.handlers[name]
		offs := w.litsIn(h, off)
		if len(offs) == 0 {
			continue
		}
		c.see(h)
		sends := callsIn(h, oi.deliver)
		if len(sends) != 1 || len(offs) != 1 {
			c.Undecided(id, "shape@"+fname(h), h.Pos(), "expected one offset literal and one delivery, found %d / %d", len(offs), len(sends))
			continue
		}
		n++
		send := sends[0]
		lit := offs[0]
		seq := lit.Table["SeqNo"]
		construct := "handler:" + name
		// builds its own snapshot (SeqNoAdvanced): [s,s], SeqNo s, and installs it as current
		// (variant: the marker is stored into the observer first and the offset reads the field back)
		if lit.Table["SnapshotMarker"] == "recv.currentSnapshot" && lit.Alloc != nil {
			t, _ := allocTable(lit.Alloc)
			if ld, isLoad := unwrap(t["SnapshotMarker"]).(*ssa.UnOp); isLoad {
				var own []FieldStore
				for _, fs := range w.fieldStores(w.Field("couchbase", oi.typ.Obj().Name(), "currentSnapshot")) {
					if fs.Fn == h {
						own = append(own, fs)
					}
				}
				if len(own) == 1 && dominatesInstr(own[0].Store, ld) && dominatesInstr(own[0].Store, send) {
					if sl, ok2 := w.litOf(own[0].Store.Val); ok2 {
						ss, se := sl.Table["StartSeqNo"], sl.Table["EndSeqNo"]
						ok := ss == seq && se == seq && strings.HasPrefix(seq, "param(")
						c.Check(ok, id, construct, lit.Pos, "installs snapshot ["+seq+","+seq+"] before delivery and the offset carries that installed marker with SeqNo "+seq,
							fmt.Sprintf("self-built snapshot is not [s,s] with SeqNo s of one value (start %s end %s seq %s)", ss, se, seq))
						continue
					}
				}
			}
		}
		if ss, has := lit.Table["SnapshotMarker.StartSeqNo"]; has {
			se := lit.Table["SnapshotMarker.EndSeqNo"]
			ok := ss == seq && se == seq && strings.HasPrefix(seq, "param(")
			installed := false
			for _, fs := range w.fieldStores(w.Field("couchbase", oi.typ.Obj().Name(), "currentSnapshot")) {
				if fs.Fn != h || !dominatesInstr(fs.Store, send) {
					continue
				}
				if sl, ok2 := w.litOf(fs.Store.Val); ok2 && sl.Table["StartSeqNo"] == seq && sl.Table["EndSeqNo"] == seq {
					// the installed marker is the very one the offset carries
					if lit.Alloc != nil {
						if t, _ := allocTable(lit.Alloc); asAlloc(t["SnapshotMarker"]) != nil && asAlloc(t["SnapshotMarker"]) == asAlloc(fs.Store.Val) {
							installed = true
						}
					} else {
						installed = true
					}
				}
			}
			_ = sm
			c.Check(ok && installed, id, construct, lit.Pos, "builds snapshot ["+seq+","+seq+"] and SeqNo "+seq+" from one value and installs it before delivery",
				fmt.Sprintf("self-built snapshot is not [s,s] with SeqNo s of one value (start %s end %s seq %s installed %v)", ss, se, seq, installed))
			continue
		}
		// membership guard on the same value
		memberGuard := func(b *ssa.BasicBlock, needSeq bool) bool {
			return guardedBy(b, true, func(v ssa.Value) bool {
				call, ok := v.(*ssa.Call)
				if !ok || call.Common().StaticCallee() != oi.member || len(call.Common().Args) != 2 {
					return false
				}
				return !needSeq || w.Origin(call.Common().Args[1]) == seq
			})
		}
		okGuard := memberGuard(send.Block(), true)
		so, vo := lit.Table["SnapshotMarker"], lit.Table["VbUUID"]
		okSrc := so == "recv.currentSnapshot" && vo == "recv.vbUUID"
		// the observer's fields are read inside the checked region (the literal, or the helper call that builds it, lies in it)
		okRegion := memberGuard(lit.At.Block(), false)
		if lit.Alloc != nil {
			t, _ := allocTable(lit.Alloc)
			for _, f := range []string{"SnapshotMarker", "VbUUID"} {
				if ld, ok := t[f].(*ssa.UnOp); ok && !memberGuard(ld.Block(), false) {
					okRegion = false
				}
			}
		}
		switch {
		case !okGuard:
			c.Fail(id, construct, send.Pos(), "delivery is not dominated by IsInSnapshotMarker(%s)=true — an event outside its announced snapshot would be delivered with a torn offset", seq)
		case !okSrc || !okRegion:
			c.Fail(id, construct, lit.Pos, "offset takes SnapshotMarker ← %s, VbUUID ← %s (in checked region: %v); expected the observer's current snapshot and branch id read after the check", so, vo, okRegion)
		default:
			c.OK(id, construct, send.Pos(), "IsInSnapshotMarker(%s) dominates the delivery; SnapshotMarker ← %s, VbUUID ← %s", seq, so, vo)
		}
	}
	if n < 10 {
		c.Undecided(id, "floor", 0, "only %d offset-building handlers found (10 confirmed by hand)", n)
	}
}

func c06r2(c *Ctx, id string) {
	oi := observerInfo(c, id)
	fn := oi.member
	recv, p := fn.Params[0].Name(), fn.Params[1].Name()
	snap := recv + ".currentSnapshot"
	h := &Harness{Fn: fn,
		Groups: []Group{{Atoms: []string{p, snap + ".StartSeqNo", snap + ".EndSeqNo"}, Unsigned: true}},
		Bools:  []string{snap + "==nil"},
		Quiet:  quietLog,
	}
	c.oae(id, fname(fn), fn.Pos(), h, func(st *State, out *Outcome) string {
		in := !st.B(snap+"==nil") && st.Le(snap+".StartSeqNo", p) && st.Le(p, snap+".EndSeqNo")
		if in {
			if out.Panicked {
				return "panics for a sequence number inside the snapshot"
			}
			if b, ok := out.Ret[0].(avBool); !ok || !b.b {
				return "does not return true for a sequence number inside the snapshot"
			}
			return ""
		}
		if !out.Panicked {
			return "returns " + avString(out.Ret[0]) + " instead of stopping the client for a sequence number outside the snapshot"
		}
		return ""
	}, "true ⇔ snapshot≠nil ∧ Start ≤ seq ≤ End; panic in every other state")
}

func c06r3(c *Ctx, id string) {
	w := c.W
	oi := observerInfo(c, id)
	immutableOffsets(c, id)
	f := w.Field("couchbase", oi.typ.Obj().Name(), "currentSnapshot")
	c.need(f != nil, id, "observer.currentSnapshot")
	n := 0
	for _, fs := range w.fieldStores(f) {
		n++
		c.see(fs.Fn)
		a := asAlloc(fs.Store.Val)
		construct := "snapshot-assign@" + fname(fs.Fn)
		if a == nil || a.Parent() != fs.Fn {
			c.Fail(id, construct, fs.Store.Pos(), "currentSnapshot ← %s: not a literal allocated for this event (offsets already handed out would change under the consumer)", w.Origin(fs.Store.Val))
			continue
		}
		tab, _ := allocTable(a)
		s, e := w.Origin(tab["StartSeqNo"]), w.Origin(tab["EndSeqNo"])
		ok := strings.HasPrefix(s, "param(") && strings.HasPrefix(e, "param(")
		c.Check(ok, id, construct, fs.Store.Pos(), "fresh literal [Start ← "+s+", End ← "+e+"]", "snapshot literal not built from the event: Start ← "+s+", End ← "+e)
	}
	if n < 2 {
		c.Undecided(id, "snapshot-assign", 0, "only %d assignments of currentSnapshot found", n)
	}
	// SnapshotMarker handler: Start/End from the like-named fields
	if h := oi.handlers["SnapshotMarker"]; h != nil && len(h.Params) > 1 {
		ev := "param(" + h.Params[1].Name() + ")"
		for _, a := range allocsOf(h, w.NamedType("models", "SnapshotMarker")) {
			tab, _ := allocTable(a)
			s, e := w.Origin(tab["StartSeqNo"]), w.Origin(tab["EndSeqNo"])
			c.Check(s == ev+".StartSeqNo" && e == ev+".EndSeqNo", id, "marker-table", a.Pos(), "Start ← "+s+", End ← "+e, "marker fields crossed: Start ← "+s+", End ← "+e)
		}
	}
}

func c06r4(c *Ctx, id string) {
	w := c.W
	oi := observerInfo(c, id)
	f := w.Field("couchbase", oi.typ.Obj().Name(), "vbUUID")
	c.need(f != nil, id, "observer.vbUUID")
	setter := w.Method("couchbase", oi.typ.Obj().Name(), "SetVbUUID")
	c.need(setter != nil, id, "observer.SetVbUUID")
	for _, fs := range w.fieldStores(f) {
		c.see(fs.Fn)
		ok := fs.Fn == setter && w.Origin(fs.Store.Val) == "param("+setter.Params[1].Name()+")"
		if _, isAlloc := fs.Store.Addr.(*ssa.FieldAddr).X.(*ssa.Alloc); isAlloc {
			continue
		}
		c.Check(ok, id, "vbuuid-writer@"+fname(fs.Fn), fs.Store.Pos(), "written by SetVbUUID from its parameter", "observer.vbUUID written in "+fname(fs.Fn)+" ← "+w.Origin(fs.Store.Val))
	}
	n := 0
	for _, fn := range w.ModFuncs {
		allInstrs(fn, func(in ssa.Instruction) {
			cc := callOf(in)
			if cc == nil || !isInvokeOf(cc, "Observer", "SetVbUUID") {
				return
			}
			n++
			c.see(fn)
			c.CallSites++
			construct := "setvbuuid@" + fname(fn)
			arg := w.Origin(cc.Args[0])
			// inside an open-stream callback: parameters (failOverLogs, err)
			var errP, logsP *ssa.Parameter
			for _, p := range fn.Params {
				if types.Implements(p.Type(), errorIface()) && types.IsInterface(p.Type()) {
					errP = p
				}
				if _, isSlice := p.Type().Underlying().(*types.Slice); isSlice {
					logsP = p
				}
			}
			if errP == nil || logsP == nil || fn.Parent() == nil {
				c.Fail(id, construct, in.Pos(), "SetVbUUID called outside an open-stream callback")
				return
			}
			okG := errGuard(in.Block(), true, func(v ssa.Value) bool { return v == ssa.Value(errP) })
			want := "&param(" + logsP.Name() + ")[const(0)].VbUUID"
			if okG && arg == want {
				c.OK(id, construct, in.Pos(), "under err==nil with %s", arg)
			} else {
				c.Fail(id, construct, in.Pos(), "SetVbUUID(%s) (under err==nil: %v); expected the newest failover entry %s of the successful open", arg, okG, want)
			}
		})
	}
	if n < 2 {
		c.Undecided(id, "setvbuuid", 0, "only %d SetVbUUID call sites found (2 confirmed by hand)", n)
	}
}
