package main

// dcpverif — repository-specific static checker for Trendyol/go-dcp.
//
//   dcpverif -prop C05 -tier quick|thorough -repo /repo -out /verif
//
// exit 0: every obligation of the property discharged (known findings are printed, not failed)
// exit 1: at least one obligation violated or undecided  (VIOLATION line printed)
// exit 2: the repository cannot be analysed (does not type-check, no packages)

import (
	"encoding/json"
	"flag"
	"fmt"
	"os"
	"path/filepath"
	"runtime"
	"sort"
	"strconv"
	"strings"
	"time"
)

func runtimeStack(b []byte) int { return runtime.Stack(b, false) }

type Property struct {
	ID          string
	Explanation string   // what the rules decide and what they do not
	Assumptions []string // trusted base
	Rules       []RuleDef
}

type RuleDef struct {
	ID   string
	Text string
	Run  func(c *Ctx, id string)
	// Thorough-only rules are skipped in the quick tier.
	ThoroughOnly bool
}

var registry = map[string]*Property{}

func register(p *Property) { registry[p.ID] = p }

type knownFinding struct {
	Prop string
	Key  string
	What string
}

func loadKnown(path string) []knownFinding {
	var out []knownFinding
	b, err := os.ReadFile(path)
	if err != nil {
		return nil
	}
	for _, l := range strings.Split(string(b), "\n") {
		l = strings.TrimSpace(l)
		if !strings.HasPrefix(l, "known:") {
			continue
		}
		// known: property=C05 key=<rule|construct> :: <what fails>
		rest := strings.TrimSpace(strings.TrimPrefix(l, "known:"))
		parts := strings.SplitN(rest, " :: ", 2)
		what := ""
		if len(parts) == 2 {
			what = parts[1]
		}
		var kf knownFinding
		for _, f := range strings.Fields(parts[0]) {
			if strings.HasPrefix(f, "property=") {
				kf.Prop = strings.TrimPrefix(f, "property=")
			}
			if strings.HasPrefix(f, "key=") {
				kf.Key = strings.TrimPrefix(f, "key=")
			}
		}
		kf.What = what
		if kf.Prop != "" && kf.Key != "" {
			out = append(out, kf)
		}
	}
	return out
}

func main() {
	prop := flag.String("prop", "", "property id (C01..C20) or 'all'")
	tier := flag.String("tier", "quick", "quick|thorough")
	repo := flag.String("repo", "/repo", "repository root")
	out := flag.String("out", "/verif", "directory holding evidence/ and KNOWN_FINDINGS.txt")
	list := flag.Bool("list", false, "list properties and rules")
	doc := flag.Bool("doc", false, "print the rule documentation (markdown) of all properties")
	verbose := flag.Bool("v", false, "print every obligation")
	noEvidence := flag.Bool("no-evidence", false, "do not write evidence files (self-test on scratch copies)")
	flag.Parse()

	if *doc {
		for _, id := range sortedProps() {
			p := registry[id]
			fmt.Printf("### %s\n\n%s\n\n", id, p.Explanation)
			for _, r := range p.Rules {
				fmt.Printf("* **%s** — %s\n", r.ID, r.Text)
			}
			fmt.Printf("\nAssumed: %s.\n\n", strings.Join(p.Assumptions, "; "))
		}
		return
	}
	if *list {
		ids := sortedProps()
		for _, id := range ids {
			p := registry[id]
			fmt.Printf("%s  (%d rules)\n", id, len(p.Rules))
			for _, r := range p.Rules {
				fmt.Printf("   %-8s %s\n", r.ID, r.Text)
			}
		}
		return
	}
	var props []string
	if *prop == "all" {
		props = sortedProps()
	} else {
		for _, p := range strings.Split(*prop, ",") {
			if registry[p] == nil {
				fmt.Fprintf(os.Stderr, "dcpverif: unknown property %q\n", p)
				os.Exit(2)
			}
			props = append(props, p)
		}
	}
	if len(props) == 0 {
		fmt.Fprintln(os.Stderr, "dcpverif: -prop required")
		os.Exit(2)
	}
	seed := 0
	if s := os.Getenv("VERIF_SEED"); s != "" {
		seed, _ = strconv.Atoi(s)
	}

	t0 := time.Now()
	abs, _ := filepath.Abs(*repo)
	w, err := loadWorld(abs, controlOverlay(abs))
	if err != nil {
		fmt.Fprintf(os.Stderr, "dcpverif: cannot analyse %s: %v\n", abs, err)
		// a repository that does not build proves nothing: fail loudly, write no success evidence
		for _, p := range props {
			fmt.Printf("VIOLATION property=%s replay=%s\n", p, "cannot-analyse")
		}
		os.Exit(2)
	}
	loadS := time.Since(t0).Seconds()
	known := loadKnown(filepath.Join(*out, "KNOWN_FINDINGS.txt"))

	exit := 0
	for _, id := range props {
		t1 := time.Now()
		p := registry[id]
		outDir = *out
		c := runRules(w, p, *tier)
		if *tier == "thorough" {
			thoroughExtras(c, p)
		}
		// known findings
		for _, o := range c.Obs {
			if o.Verdict != Violated {
				continue
			}
			for _, k := range known {
				if k.Prop == id && k.Key == o.Key {
					o.Verdict = Known
					fmt.Printf("KNOWN-FINDING: property=%s %s [%s at %s]\n", id, k.What, o.Key, o.Pos)
				}
			}
		}
		bad := 0
		sort.SliceStable(c.Obs, func(i, j int) bool { return c.Obs[i].Key < c.Obs[j].Key })
		for _, o := range c.Obs {
			if *verbose || o.Verdict == Violated || o.Verdict == Undecided {
				fmt.Printf("  [%s] %s @ %s\n      rule: %s\n      %s\n", o.Verdict, o.Key, o.Pos, o.Text, strings.ReplaceAll(o.Witness, "\n", "\n      "))
			}
			if o.Verdict == Violated || o.Verdict == Undecided {
				bad++
			}
		}
		wall := time.Since(t1).Seconds() + loadS
		if bad > 0 {
			exit = 1
			dir := filepath.Join(*out, "evidence", "violations")
			rp := filepath.Join(dir, id+".json")
			if !*noEvidence {
				_ = os.MkdirAll(dir, 0o755)
				var v []*Obligation
				for _, o := range c.Obs {
					if o.Verdict == Violated || o.Verdict == Undecided {
						v = append(v, o)
					}
				}
				b, _ := json.MarshalIndent(map[string]any{"property": id, "tier": *tier, "repo": abs, "violations": v,
					"replay": fmt.Sprintf("dcpverif -prop %s -tier %s -repo %s -v", id, *tier, abs)}, "", " ")
				_ = os.WriteFile(rp, b, 0o644)
			}
			fmt.Printf("VIOLATION property=%s replay=%s\n", id, rp)
		}
		if !*noEvidence {
			writeEvidence(filepath.Join(*out, "evidence", id+".json"), c, p, *tier, seed, wall, bad)
		}
		disc := 0
		for _, o := range c.Obs {
			if o.Verdict == Discharged {
				disc++
			}
		}
		fmt.Printf("%s %s: %d obligations, %d discharged, %d failing, %d abstract states, %d functions, %.1fs\n",
			id, *tier, len(c.Obs), disc, bad, c.States, len(c.FuncsSeen), wall)
	}
	os.Exit(exit)
}

func sortedProps() []string {
	var ids []string
	for id := range registry {
		ids = append(ids, id)
	}
	sort.Strings(ids)
	return ids
}

func writeEvidence(path string, c *Ctx, p *Property, tier string, seed int, wall float64, bad int) {
	_ = os.MkdirAll(filepath.Dir(path), 0o755)
	disc, nontriv, knownN := 0, 0, 0
	for _, o := range c.Obs {
		if o.Verdict == Known {
			knownN++
		}
	}
	seenNT := map[string]bool{}
	for _, o := range c.Obs {
		if o.Verdict == Discharged {
			disc++
		}
		if o.Nontrivial && !seenNT[o.Key] {
			seenNT[o.Key] = true
			nontriv++
		}
	}
	samples := []any{}
	for _, o := range c.Obs {
		samples = append(samples, o)
	}
	rules := []string{}
	for _, r := range p.Rules {
		rules = append(rules, r.ID+": "+r.Text)
	}
	var funcs []string
	for f := range c.FuncsSeen {
		funcs = append(funcs, f)
	}
	sort.Strings(funcs)
	ev := map[string]any{
		"property_id": c.Prop,
		"tier":        tier,
		"seed":        seed,
		"level":       "other",
		"coverage": map[string]any{
			"explanation":         p.Explanation,
			"obligations":         len(c.Obs),
			"discharged":          disc,
			"evaluations":         len(c.Obs) + c.States,
			"distinct_nontrivial": nontriv,
			"rule": "one obligation per (rule, resolved program construct); non-trivial = its discharge needed a path, provenance, table or abstract-state argument " +
				"(trivial = a plain presence/constant check); abstract_states counts the order-abstraction states evaluated exhaustively for guard-exactness obligations",
			"samples":            samples,
			"rules":              rules,
			"functions_analysed": funcs,
			"call_sites":         c.CallSites,
			"abstract_states":    c.States,
			"exhaustive":         true,
			"known_findings":     knownN,
			"packages_loaded":    len(c.W.Pkgs),
			"module_functions":   len(c.W.ModFuncs),
			"checker_cmd":        fmt.Sprintf("dcpverif -prop %s -tier %s -repo %s", c.Prop, tier, c.W.Repo),
		},
		"assumptions": p.Assumptions,
		"wall_s":      wall,
		"violations":  bad,
	}
	b, _ := json.MarshalIndent(ev, "", " ")
	_ = os.WriteFile(path, b, 0o644)
}
