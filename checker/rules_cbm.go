package main

// rules_cbm.go — the Couchbase heart-beat membership (C10), beyond the periphery: the monitor round as path languages
// and exhaustive evaluations of its small decision procedures.

import (
	"fmt"
	"go/types"
	"sort"
	"strings"

	"golang.org/x/tools/go/ssa"
)

// backgroundLoops: each named starter spawns a goroutine whose loop calls the named worker on every iteration, and the
// constructor calls the starters (and the registration) unconditionally.
func cbmLifecycle(c *Ctx, id string) {
	w := c.W
	m := func(n string) *ssa.Function { return w.Method("couchbase", "cbMembership", n) }
	ctor := w.Func("couchbase", "NewCBMembership")
	c.need(ctor != nil && m("register") != nil && m("startHeartbeat") != nil && m("startMonitor") != nil && m("heartbeat") != nil && m("monitor") != nil, id, "couchbase membership constructor / register / startHeartbeat / startMonitor / heartbeat / monitor")
	c.see(ctor)
	var order []string
	allInstrs(ctor, func(in ssa.Instruction) {
		cc := callOf(in)
		if cc == nil {
			return
		}
		for _, n := range []string{"register", "startHeartbeat", "startMonitor"} {
			if cc.StaticCallee() == m(n) {
				if _, plain := in.(*ssa.Call); plain && lastGuardIsConstructionCheck(w, in) {
					order = append(order, n)
				} else {
					order = append(order, n+"(conditional)")
				}
			}
		}
	})
	c.Check(strings.Join(order, " ") == "register startHeartbeat startMonitor", id, "cbm:constructor", ctor.Pos(), "the constructor registers the instance, then starts heart-beat and monitor", fmt.Sprintf("the constructor's steps are %v, expected register, startHeartbeat, startMonitor — an instance that does not register, beat or monitor is never numbered or never notices a death", order))
	for _, p := range []struct{ starter, worker string }{{"startHeartbeat", "heartbeat"}, {"startMonitor", "monitor"}} {
		st := m(p.starter)
		c.see(st)
		ok := false
		for _, f := range withAnon(st) {
			if f == st {
				continue
			}
			cyc := cycleBlocks(f)
			allInstrs(f, func(in ssa.Instruction) {
				if cc := callOf(in); cc != nil && cc.StaticCallee() == m(p.worker) && cyc[in.Block()] {
					// unconditional within the loop body: its only guard is the loop's running flag
					n := 0
					for _, g := range guardsOf(in.Block()) {
						if fl, _ := flagRead(g.Cond); fl == nil {
							n++
						}
					}
					if n == 0 {
						ok = true
					}
				}
			})
		}
		spawned := false
		allInstrs(st, func(in ssa.Instruction) {
			if _, isGo := in.(*ssa.Go); isGo && len(guardsOf(in.Block())) == 0 {
				spawned = true
			}
		})
		c.Check(ok && spawned, id, "cbm:loop:"+p.worker, st.Pos(), p.starter+" spawns a loop that calls "+p.worker+" on every iteration", p.starter+" does not (unconditionally) spawn a loop that calls "+p.worker+" on every iteration")
	}
}

// lastGuardIsConstructionCheck: the instruction is unconditional, or only follows the constructor's argument checks
// (branches that end in panic on the other side).
func lastGuardIsConstructionCheck(w *World, in ssa.Instruction) bool {
	for _, g := range guardsOf(in.Block()) {
		// the other edge must lead to a panic
		other := g.If.Block().Succs[0]
		if g.Branch {
			other = g.If.Block().Succs[1]
		}
		panics := false
		for _, x := range other.Instrs {
			if isPanicLike(x) {
				panics = true
			}
		}
		if !panics {
			return false
		}
	}
	return true
}

// cbmClusterChanged: isClusterChanged ⇔ the two instance lists differ in length or in some position's id —
// exhaustive for lists of 0..2 instances over all equality patterns of the ids.
func cbmClusterChanged(c *Ctx, id string) {
	w := c.W
	fn := w.Method("couchbase", "cbMembership", "isClusterChanged")
	inst := w.NamedType("couchbase", "Instance")
	c.need(fn != nil && inst != nil && len(fn.Params) == 2, id, "cbMembership.isClusterChanged / Instance")
	recv, p := fn.Params[0].Name(), fn.Params[1].Name()
	for a := 0; a <= 2; a++ {
		for b := 0; b <= 2; b++ {
			aa, bb := a, b
			var atoms []string
			for i := 0; i < a; i++ {
				atoms = append(atoms, fmt.Sprintf("old%d.ID", i))
			}
			for i := 0; i < b; i++ {
				atoms = append(atoms, fmt.Sprintf("new%d.ID", i))
			}
			if len(atoms) == 0 {
				atoms = []string{"none"}
			}
			mk := func(prefix string, n int) avSlice {
				var cs []*cell
				for i := 0; i < n; i++ {
					cs = append(cs, &cell{typ: inst, sym: fmt.Sprintf("%s%d", prefix, i)})
				}
				return avSlice{cells: cs, isNil: n == 0}
			}
			h := &Harness{Fn: fn, Groups: []Group{{Atoms: atoms, EqOnly: true}}, Quiet: quietLog,
				Args: map[string]func(st *State) AV{p: func(st *State) AV { return mk("new", bb) }},
				Input: func(st *State, sym string, t types.Type) AV {
					if sym == recv+".lastActiveInstances" {
						return mk("old", aa)
					}
					return nil
				}}
			c.oae(id, fmt.Sprintf("cbm:changed[%d,%d]", a, b), fn.Pos(), h, func(st *State, out *Outcome) string {
				if out.Panicked {
					return "panics"
				}
				want := aa != bb
				if !want {
					for i := 0; i < aa; i++ {
						if !st.Eq(fmt.Sprintf("old%d.ID", i), fmt.Sprintf("new%d.ID", i)) {
							want = true
						}
					}
				}
				got, ok := out.Ret[0].(avBool)
				if !ok || got.b != want {
					return fmt.Sprintf("returns %s, expected %v", avString(out.Ret[0]), want)
				}
				return ""
			}, "changed ⇔ lengths differ ∨ some position's id differs")
		}
	}
}

// cbmMonitorRound: the tail of a monitor round as a path language, plus the per-instance reader.
//
//	tail:   isClusterChanged? — no → end | yes → updateIndex(filtered, index CAS) → ok: rebalance(filtered) | CAS mismatch: monitor() | other: end
//	reader: Get(id) → key-not-found: skipped | other error: panic | parse error: panic | alive: instances[i] ← instance | not alive: skipped; Done once
func cbmMonitorRound(c *Ctx, id string) {
	w := c.W
	mon := w.Method("couchbase", "cbMembership", "monitor")
	icc := w.Method("couchbase", "cbMembership", "isClusterChanged")
	ui := w.Method("couchbase", "cbMembership", "updateIndex")
	rb := w.Method("couchbase", "cbMembership", "rebalance")
	alive := w.Method("couchbase", "cbMembership", "isAlive")
	get := w.Func("couchbase", "Get")
	c.need(mon != nil && icc != nil && ui != nil && rb != nil && alive != nil && get != nil, id, "cbMembership.monitor / isClusterChanged / updateIndex / rebalance / isAlive, couchbase.Get")
	c.see(mon)
	// the functions of the round (monitor may be split into helpers)
	unit := []*ssa.Function{mon}
	for f := range w.syncCallees(mon, 2, false) {
		if f != mon && f != icc && f != ui && f != rb && f != alive && f.Pkg == mon.Pkg && f.Signature.Recv() != nil && recvTypeName(f.Signature.Recv().Type()) == "cbMembership" {
			unit = append(unit, f)
		}
	}
	inUnit := map[*ssa.Function]bool{}
	for _, f := range unit {
		inUnit[f] = true
	}
	// tail: guards of the three calls
	var changed, upd, reb, again *ssa.Call
	for _, f := range unit {
		allInstrs(f, func(in ssa.Instruction) {
			call, ok := in.(*ssa.Call)
			if !ok {
				return
			}
			switch call.Common().StaticCallee() {
			case icc:
				changed = call
			case ui:
				upd = call
			case rb:
				reb = call
			case mon:
				again = call
			}
		})
	}
	if changed == nil || upd == nil || reb == nil || again == nil {
		c.Fail(id, "cbm:round-tail", mon.Pos(), "the monitor round lacks one of: change test, index update, numbering step, retry (%v %v %v %v)", changed != nil, upd != nil, reb != nil, again != nil)
	} else {
		gUpd := guardedBy(upd.Block(), true, func(v ssa.Value) bool { return v == ssa.Value(changed) })
		gReb := errGuard(reb.Block(), true, func(v ssa.Value) bool { return v == ssa.Value(upd) }) && guardedBy(reb.Block(), true, func(v ssa.Value) bool { return v == ssa.Value(changed) })
		gAgain := errGuard(again.Block(), false, func(v ssa.Value) bool { return v == ssa.Value(upd) }) && guardedBy(again.Block(), true, func(v ssa.Value) bool {
			call, ok := v.(*ssa.Call)
			return ok && calleeName(call.Common()) == "errors.Is" && strings.HasSuffix(w.Origin(call.Common().Args[1]), "ErrCasMismatch)")
		})
		// same list to both steps, the index document's CAS to the update
		sameList := w.Origin(upd.Common().Args[2]) == w.Origin(reb.Common().Args[1])
		cas := strings.HasSuffix(w.Origin(upd.Common().Args[3]), ".Cas")
		c.Check(gUpd && gReb && gAgain && sameList && cas, id, "cbm:round-tail", upd.Pos(), "changed → updateIndex(list, index CAS) → ok: rebalance(same list) | CAS mismatch: monitor again",
			fmt.Sprintf("the round's tail is not: change test → index update under it (%v) → numbering only after the update succeeded (%v) → retry only on CAS mismatch (%v), same list (%v), index CAS (%v)", gUpd, gReb, gAgain, sameList, cas))
	}
	// the reader closure: the one that calls couchbase.Get and isAlive
	var rd *ssa.Function
	cands := append([]*ssa.Function{}, unit...)
	for _, f := range unit {
		for _, g := range withAnon(f) {
			// a reader written as a method and started with `go h.reader(…)`
			allInstrs(g, func(in ssa.Instruction) {
				if gi, ok := in.(*ssa.Go); ok {
					if cal := gi.Common().StaticCallee(); cal != nil && cal.Pkg == mon.Pkg && cal.Parent() == nil {
						cands = append(cands, cal)
					}
				}
			})
		}
	}
	for _, f := range cands {
		for _, g := range withAnon(f) {
			if g != mon && len(callsIn(g, alive)) > 0 {
				rd = g
			}
		}
	}
	if rd == nil {
		c.Undecided(id, "cbm:reader", mon.Pos(), "the per-instance reader (closure calling isAlive) was not found")
		return
	}
	outcomes := []string{"alive", "not-alive", "key-not-found", "kv-error", "other-error", "unparsable"}
	args := map[string]func(st *State) AV{}
	for _, p := range rd.Params {
		name := p.Name()
		switch pt := p.Type().Underlying().(type) {
		case *types.Basic:
			if pt.Info()&types.IsInteger != 0 {
				args[name] = func(st *State) AV { return avInt{conc: 0} } // the instance's own index
			}
		case *types.Slice:
			if _, isP := pt.Elem().(*types.Pointer); isP {
				elemT := pt.Elem()
				args[name] = func(st *State) AV {
					return avSlice{cells: []*cell{{typ: elemT, sym: name + "[0]", have: true, val: avPtr{nil}}}}
				}
			}
		}
	}
	for _, fv := range rd.FreeVars {
		if pt, ok := fv.Type().(*types.Pointer); ok {
			if sl, ok := pt.Elem().Underlying().(*types.Slice); ok {
				if _, isP := sl.Elem().(*types.Pointer); isP {
					name, elemT, slT := fv.Name(), sl.Elem(), pt.Elem()
					args[name] = func(st *State) AV {
						return avPtr{&cell{typ: slT, sym: name, have: true, val: avSlice{cells: []*cell{{typ: elemT, sym: name + "[0]", have: true, val: avPtr{nil}}}}}}
					}
				}
			}
		}
	}
	h := &Harness{Fn: rd, Choices: map[string]int{"read": len(outcomes)}, Quiet: quietLog, MaxSteps: 6000, Args: args,
		NoInline: map[string]bool{fname(get): true, fname(alive): true},
		Oracle: func(st *State, name string, args []AV, res *types.Tuple) ([]AV, bool) {
			switch {
			case name == fname(get):
				switch st.C("read") {
				case 2:
					return []AV{avPtr{nil}, avIface{sym: "kv:1"}}, true
				case 3:
					return []AV{avPtr{nil}, avIface{sym: "kv:134"}}, true
				case 4:
					return []AV{avPtr{nil}, avIface{sym: "plain"}}, true
				}
				if pt, ok := res.At(0).Type().(*types.Pointer); ok {
					return []AV{avPtr{&cell{typ: pt.Elem(), sym: "doc"}}, avIface{isNil: true}}, true
				}
			case strings.HasSuffix(name, "sonic.Unmarshal"):
				if st.C("read") == 5 {
					return []AV{avIface{sym: "syntax"}}, true
				}
				return []AV{avIface{isNil: true}}, true
			case name == fname(alive):
				return []AV{avBool{st.C("read") == 0}}, true
			case name == "errors.As":
				e, _ := args[0].(avIface)
				if strings.HasPrefix(e.sym, "kv:") {
					if p, ok := args[1].(avIface); ok {
						if pp, ok := p.val.(avPtr); ok && pp.c != nil {
							if pt, ok := pp.c.typ.(*types.Pointer); ok {
								tc := &cell{typ: pt.Elem(), sym: "kvErr"}
								if stt, ok := pt.Elem().Underlying().(*types.Struct); ok {
									tc.fields = make([]*cell, stt.NumFields())
									for i := 0; i < stt.NumFields(); i++ {
										if stt.Field(i).Name() == "StatusCode" {
											code := int64(1)
											if e.sym != "kv:1" {
												code = 134
											}
											tc.fields[i] = &cell{typ: stt.Field(i).Type(), val: avInt{conc: code}, have: true}
										}
									}
								}
								pp.c.val, pp.c.have, pp.c.written = avPtr{tc}, true, true
							}
						}
					}
					return []AV{avBool{true}}, true
				}
				return []AV{avBool{false}}, true
			}
			return nil, false
		}}
	c.oae(id, "cbm:reader", rd.Pos(), h, func(st *State, out *Outcome) string {
		r := st.C("read")
		placed := false
		for k, cl := range out.cells {
			if cl.written && strings.HasPrefix(k, "instances") {
				placed = true
			}
		}
		// an element store into the captured slice shows up as a written element cell or an IndexAddr store; fall back on the trace
		for _, e := range out.Trace {
			if strings.Contains(e.Name, "instances[") {
				placed = true
			}
		}
		nDone := len(out.Effects("(*sync.WaitGroup).Done"))
		switch outcomes[r] {
		case "kv-error", "other-error", "unparsable":
			if !out.Panicked {
				return outcomes[r] + " does not stop the client (the instance would silently count as dead)"
			}
			return ""
		}
		if out.Panicked {
			return "panics on " + outcomes[r]
		}
		if nDone != 1 {
			return fmt.Sprintf("%s: Done signalled %d times", outcomes[r], nDone)
		}
		_ = placed
		return ""
	}, "key-not-found → skipped; any other read or parse error → panic; Done exactly once on every surviving path")
	// alive ⇒ recorded at its own index, not-alive ⇒ not recorded: by guards on the element store
	okStore := false
	nStores := 0
	allInstrs(rd, func(in ssa.Instruction) {
		st, isSt := in.(*ssa.Store)
		if !isSt {
			return
		}
		ia, isIA := st.Addr.(*ssa.IndexAddr)
		if !isIA {
			return
		}
		if sl, isSl := ia.X.Type().Underlying().(*types.Slice); !isSl || !strings.HasSuffix(types.TypeString(sl.Elem(), nil), "Instance") {
			return // (argument arrays of log calls)
		}
		nStores++
		if guardedBy(in.Block(), true, func(v ssa.Value) bool {
			call, ok := v.(*ssa.Call)
			return ok && call.Common().StaticCallee() == alive
		}) && strings.HasPrefix(w.Origin(st.Addr.(*ssa.IndexAddr).Index), "param(") {
			okStore = true
		}
	})
	c.Check(okStore && nStores == 1, id, "cbm:reader-records", rd.Pos(), "an instance is recorded at its own index ⇔ it is alive", fmt.Sprintf("the reader does not record (exactly) the live instance at its own index (%d element stores, guarded by isAlive: %v)", nStores, okStore))
}

// cbmRegister: the registration ladder — update; only on key-not-found create then update again; any remaining error
// stops the client; the join time recorded in the index is the one the instance document carries.
func cbmRegister(c *Ctx, id string) {
	w := c.W
	fn := w.Method("couchbase", "cbMembership", "register")
	c.need(fn != nil, id, "cbMembership.register")
	c.see(fn)
	seqs, complete := pathEvents(fn, func(in ssa.Instruction) (string, *ssa.Function) {
		call, ok := in.(*ssa.Call)
		if !ok || call.Common().StaticCallee() == nil {
			return "", nil
		}
		callee := call.Common().StaticCallee()
		switch callee.Name() {
		case "CreatePath":
			return "index", nil
		case "UpdateDocument":
			return "update", nil
		case "CreateDocument":
			return "create", nil
		}
		// the steps may live in helper methods of the membership (createIndex, an extracted write ladder)
		if callee.Signature.Recv() != nil && recvTypeName(callee.Signature.Recv().Type()) == "cbMembership" {
			return "", callee
		}
		return "", nil
	}, 2)
	// ("index update create" without a panic is the path-insensitive image of "create failed": the final error test panics on it)
	want := map[string]bool{"index update create": true, "index !panic": true, "index update": true, "index update !panic": true, "index update create !panic": true, "index update create update": true, "index update create update !panic": true}
	need := []string{"index !panic", "index update", "index update create update", "index update !panic"}
	ok := complete
	for _, s := range seqs {
		if !want[s] {
			ok = false
		}
	}
	for _, n := range need {
		found := false
		for _, s := range seqs {
			if s == n {
				found = true
			}
		}
		if !found {
			ok = false
		}
	}
	c.Check(ok, id, "cbm:register", fn.Pos(), fmt.Sprintf("index entry, update | →create→update, panic on any remaining error %q", seqs), fmt.Sprintf("the registration does not follow index → update | update(key not found) → create → update, with a panic on every remaining error: %q", seqs))
	// every panic is under a non-nil error
	allInstrs(fn, func(in ssa.Instruction) {
		if isPanicLike(in) {
			c.Check(errNonNilGuard(in.Block()), id, "cbm:register-panic@"+w.pos(in.Pos()), in.Pos(), "the panic is under a failed step", "a panic of the registration is not under a failed step")
		}
	})
}

// infoGetters: GetInfo of every bus-fed membership returns the recorded membership when there is one and otherwise
// waits for the first — exhaustive over "recorded or not".
func infoGetters(c *Ctx, id string) {
	w := c.W
	model := w.NamedType("membership", "Model")
	c.need(model != nil, id, "membership.Model")
	n := 0
	var fns []*ssa.Function
	for _, gi := range w.implsOf("membership", "Membership", "GetInfo") {
		fns = append(fns, gi)
	}
	sort.Slice(fns, func(i, j int) bool { return fname(fns[i]) < fname(fns[j]) })
	for _, gi := range fns {
		hasRecv := false
		allInstrs(gi, func(in ssa.Instruction) {
			if u, ok := in.(*ssa.UnOp); ok && u.Op.String() == "<-" {
				hasRecv = true
			}
		})
		if !hasRecv {
			continue // static membership: a stored value
		}
		n++
		c.see(gi)
		// the field of type *Model that is read
		var field string
		allInstrs(gi, func(in ssa.Instruction) {
			if v, ok := in.(ssa.Value); ok {
				if f := loadedField(v); f != nil {
					if p, ok := f.Type().(*types.Pointer); ok && types.Identical(p.Elem(), model) {
						field = f.Name()
					}
				}
			}
		})
		recv := gi.Params[0].Name()
		h := &Harness{Fn: gi, Bools: []string{recv + "." + field + "==nil"}, Quiet: quietLog}
		c.oae(id, "info-getter@"+fname(gi), gi.Pos(), h, func(st *State, out *Outcome) string {
			if out.Panicked {
				return "panics"
			}
			recvs := 0
			for _, e := range out.Trace {
				if strings.HasPrefix(e.Name, "recv:") || strings.Contains(e.Name, "<-") {
					recvs++
				}
			}
			got := avString(out.Ret[0])
			if st.B(recv + "." + field + "==nil") {
				if recvs != 1 || !strings.Contains(got, "recv") {
					return "nothing recorded yet, but " + got + " is returned instead of waiting for the first announcement"
				}
				return ""
			}
			if recvs != 0 || !strings.Contains(got, recv+"."+field) {
				return "a membership is recorded but " + got + " is returned (or a queue is polled first)"
			}
			return ""
		}, "recorded → return it; nothing recorded → wait for the first announcement")
	}
	if n < 3 {
		c.Undecided(id, "info-getter", 0, "only %d waiting GetInfo implementations found", n)
	}
}

// firstInfoHandOver: the bus listener of every bus-fed membership hands the announcement over to a GetInfo that may be
// waiting ⇔ it is the first one (nothing was recorded before) — exhaustive over "recorded before or not"; it records
// the announcement in both cases. With the polarity flipped the instance waits for its numbering for ever.
func firstInfoHandOver(c *Ctx, id string) {
	w := c.W
	model := w.NamedType("membership", "Model")
	c.need(model != nil, id, "membership.Model")
	n := 0
	for _, gi := range w.implsOf("membership", "Membership", "GetInfo") {
		recvT := recvTypeName(gi.Signature.Recv().Type())
		var lis *ssa.Function
		for _, fn := range w.ModFuncs {
			if fn.Parent() != nil || fn.Signature.Recv() == nil || fn.Pkg != gi.Pkg || recvTypeName(fn.Signature.Recv().Type()) != recvT || len(fn.Params) != 2 {
				continue
			}
			if p, ok := fn.Params[1].Type().(*types.Pointer); ok && types.Identical(p.Elem(), model) && len(w.usesAsValue(fn)) > 0 {
				lis = fn
			}
		}
		if lis == nil {
			continue
		}
		field := ""
		allInstrs(lis, func(in ssa.Instruction) {
			if st, ok := in.(*ssa.Store); ok {
				if f := fieldOfAddr(st.Addr); f != nil {
					if p, ok := f.Type().(*types.Pointer); ok && types.Identical(p.Elem(), model) {
						field = f.Name()
					}
				}
			}
		})
		if field == "" {
			continue
		}
		n++
		// the listener is subscribed by the constructor, unconditionally, a failure being fatal
		subscribed := ""
		for _, use := range w.usesAsValue(lis) {
			fn := use.Parent()
			allInstrs(fn, func(in ssa.Instruction) {
				call, ok := in.(*ssa.Call)
				if !ok || !call.Common().IsInvoke() || !strings.HasPrefix(call.Common().Method.Name(), "Subscribe") {
					return
				}
				mine := false
				for _, a := range call.Common().Args {
					if w.boundMethodOf(a) == lis {
						mine = true
					}
				}
				if !mine {
					return
				}
				fatal := false
				for _, sk := range errorSinks(call) {
					if sk.Kind == "panic" {
						fatal = true
					}
				}
				if fatal && len(liveGuards(in.Block())) == 0 {
					subscribed = fname(fn)
				}
			})
		}
		c.Check(subscribed != "", id, "subscribed@"+fname(lis), lis.Pos(), "subscribed unconditionally by "+subscribed+", failure fatal", "the listener is not subscribed to the bus unconditionally with a fatal failure: the membership never learns its numbering and GetInfo waits for ever")
		recv, mp := lis.Params[0].Name(), lis.Params[1].Name()
		h := &Harness{Fn: lis, Bools: []string{recv + "." + field + "==nil"}, Quiet: quietLog}
		c.oae(id, "first-info@"+fname(lis), lis.Pos(), h, func(st *State, out *Outcome) string {
			if out.Panicked {
				return "panics"
			}
			goes := 0
			for _, e := range out.Trace {
				if strings.HasPrefix(e.Name, "go:") {
					goes++
				}
			}
			want := 0
			if st.B(recv + "." + field + "==nil") {
				want = 1
			}
			if goes != want {
				return fmt.Sprintf("%d hand-overs with 'nothing recorded before' = %v", goes, st.B(recv+"."+field+"==nil"))
			}
			if f := out.Final(recv + "." + field); f == nil || !strings.Contains(avString(f), mp) {
				return "the announcement is not recorded: " + avString(out.Final(recv+"."+field))
			}
			return ""
		}, "record always; hand over to a waiting GetInfo ⇔ nothing was recorded before")
	}
	if n < 3 {
		c.Undecided(id, "first-info", 0, "only %d bus-fed membership listeners found", n)
	}
}

// cbmRoundInputs: a round works on what it read: the index read and its parse end the round on error (everything after
// is under err == nil); the live list is exactly the recorded instances in index order (append of *instance under
// instance != nil); updateIndex returns the store's error; the registration records the join time it announced.
func cbmRoundInputs(c *Ctx, id string) {
	w := c.W
	mon := w.Method("couchbase", "cbMembership", "monitor")
	ui := w.Method("couchbase", "cbMembership", "updateIndex")
	reg := w.Method("couchbase", "cbMembership", "register")
	get := w.Func("couchbase", "Get")
	c.need(mon != nil && ui != nil && reg != nil && get != nil, id, "cbMembership.monitor / updateIndex / register, couchbase.Get")
	var idxGet, parse *ssa.Call
	allInstrs(mon, func(in ssa.Instruction) {
		call, ok := in.(*ssa.Call)
		if !ok {
			return
		}
		if call.Common().StaticCallee() == get && idxGet == nil {
			idxGet = call
		}
		if strings.HasSuffix(calleeName(call.Common()), "sonic.Unmarshal") && parse == nil {
			parse = call
		}
	})
	okIn := idxGet != nil && parse != nil
	if okIn {
		allInstrs(mon, func(in ssa.Instruction) {
			if _, isGo := in.(*ssa.Go); isGo {
				g1 := errGuard(in.Block(), true, func(v ssa.Value) bool { return isExtractOf(v, idxGet) })
				g2 := errGuard(in.Block(), true, func(v ssa.Value) bool { return v == ssa.Value(parse) })
				if !g1 || !g2 {
					okIn = false
				}
			}
		})
		if !errGuard(parse.Block(), true, func(v ssa.Value) bool { return isExtractOf(v, idxGet) }) {
			okIn = false
		}
	}
	c.Check(okIn, id, "cbm:round-inputs", mon.Pos(), "the index is parsed only if it was read, the instances are read only if it parsed", "a monitor round goes on after it failed to read or parse the index: it would number the group from an empty or stale list")
	okF, nApp := false, 0
	monUnit := []*ssa.Function{mon}
	for g := range w.syncCallees(mon, 2, false) {
		if g != mon && g.Pkg == mon.Pkg && g != ui && g != reg {
			monUnit = append(monUnit, g) // the round's steps may live in helpers
		}
	}
	var monInstrs []ssa.Instruction
	for _, g := range monUnit {
		for _, f := range withAnon(g) {
			c.see(f)
			for _, b := range f.Blocks {
				monInstrs = append(monInstrs, b.Instrs...)
			}
		}
	}
	eachMon := func(_ *ssa.Function, f func(ssa.Instruction)) {
		for _, in := range monInstrs {
			f(in)
		}
	}
	eachMon(mon, func(in ssa.Instruction) {
		cc := callOf(in)
		if cc == nil {
			return
		}
		if b, ok := cc.Value.(*ssa.Builtin); !ok || b.Name() != "append" {
			return
		}
		if sl, ok := cc.Args[0].Type().Underlying().(*types.Slice); !ok || !strings.HasSuffix(types.TypeString(sl.Elem(), nil), "couchbase.Instance") {
			return
		}
		nApp++
		for _, g := range guardsOf(in.Block()) {
			v, pol := stripNot(g.Cond, g.Branch)
			if eq, isCmp := isNilCompare(v, func(x ssa.Value) bool { return true }); isCmp && eq != pol {
				okF = true
			}
		}
	})
	c.Check(okF && nApp == 1, id, "cbm:live-list", mon.Pos(), "the live list is the recorded (non-nil) instances, in index order", fmt.Sprintf("the live list is not built by appending exactly the non-nil recorded instances (%d appends, nil-guarded: %v)", nApp, okF))
	okU := false
	allInstrs(ui, func(in ssa.Instruction) {
		if call, ok := in.(*ssa.Call); ok && call.Common().StaticCallee() != nil && call.Common().StaticCallee().Name() == "UpdateDocument" {
			okU = reported(errorSinks(call))
			last := call.Common().Args[len(call.Common().Args)-1]
			fromParam := strings.Contains(w.Origin(last), "param(")
			if a, isA := unwrap(last).(*ssa.Alloc); isA && a.Referrers() != nil {
				nSt := 0
				for _, r := range *a.Referrers() {
					if st, isSt := r.(*ssa.Store); isSt && st.Addr == ssa.Value(a) {
						nSt++
						if _, isP := unwrap(st.Val).(*ssa.Parameter); isP && nSt == 1 {
							fromParam = true // &cas of the parameter
						} else {
							fromParam = false
						}
					}
				}
			}
			if !fromParam {
				okU = false
			}
		}
	})
	c.Check(okU, id, "cbm:update-index", ui.Pos(), "updateIndex writes under the CAS it was given and returns the store's error", "updateIndex does not return the error of its conditional write (a lost CAS race would look like success and two members would number the group differently)")
	jt := w.Field("couchbase", "cbMembership", "clusterJoinTime")
	okJ := false
	var stored ssa.Value
	allInstrs(reg, func(in ssa.Instruction) {
		if st, ok := in.(*ssa.Store); ok && fieldOfAddr(st.Addr) == jt {
			stored = st.Val
		}
	})
	if stored != nil {
		so := w.Origin(stored)
		// what is written to the index: the value marshalled into CreatePath's payload — in register itself, or in a
		// helper that receives it as a parameter from register
		marshalled := func(o string) (string, bool) {
			const pre = "sonic.Marshal)("
			k := strings.Index(o, pre)
			if k < 0 || !strings.HasSuffix(o, ")#0") {
				return "", false
			}
			return strings.TrimSuffix(o[k+len(pre):], ")#0"), true
		}
		unit := []*ssa.Function{reg}
		for g := range w.syncCallees(reg, 2, false) {
			if g != reg && g.Pkg == reg.Pkg && g.Signature.Recv() != nil {
				unit = append(unit, g)
			}
		}
		for _, f := range unit {
			allInstrs(f, func(in ssa.Instruction) {
				call, ok := in.(*ssa.Call)
				if !ok || call.Common().StaticCallee() == nil || call.Common().StaticCallee().Name() != "CreatePath" {
					return
				}
				for _, a := range call.Common().Args {
					inner, isM := marshalled(w.Origin(a))
					if !isM {
						continue
					}
					if f == reg && inner == so {
						okJ = true
					}
					if f != reg && strings.HasPrefix(inner, "param(") {
						// the helper's parameter: what register passes for it
						for pi, p := range f.Params {
							if "param("+p.Name()+")" != inner {
								continue
							}
							allInstrs(reg, func(in2 ssa.Instruction) {
								if c2 := callOf(in2); c2 != nil && c2.StaticCallee() == f && pi < len(c2.Args) && w.Origin(c2.Args[pi]) == so {
									okJ = true
								}
							})
						}
					}
				}
			})
		}
	}
	c.Check(okJ, id, "cbm:join-time", reg.Pos(), "the join time kept for the heart-beats is the one written to the index", "the registration does not keep (clusterJoinTime ←) the join time it wrote to the index: later heart-beats carry another join time and the join order — the numbering — changes")
}

// cbmNumbering (C10): the numbering step of the Couchbase membership evaluated whole for 1..3 live instances over
// every equality pattern between their ids and this member's id: this member's number is the (1-based) position of the
// first instance carrying its id, the group size is the length of the list; the numbering is announced ⇔ it differs
// from the one in effect; the list is recorded; a list that does not contain this member stops the client.
func cbmNumbering(c *Ctx, id string) {
	w := c.W
	rb := w.Method("couchbase", "cbMembership", "rebalance")
	inst := w.NamedType("couchbase", "Instance")
	model := w.NamedType("membership", "Model")
	c.need(rb != nil && inst != nil && model != nil && len(rb.Params) == 2, id, "cbMembership.rebalance(instances) / couchbase.Instance / membership.Model")
	c.see(rb)
	recv, listP := rb.Params[0].Name(), rb.Params[1].Name()
	self := "string(" + recv + ".id)"
	var isChanged *ssa.Function
	for _, f := range w.ModFuncs {
		if f.Name() == "IsChanged" && f.Signature.Recv() != nil && recvTypeName(f.Signature.Recv().Type()) == "Model" {
			isChanged = f
		}
	}
	c.need(isChanged != nil, id, "membership.Model.IsChanged")
	for k := 1; k <= c.bound(3, 5); k++ {
		kk := k
		atoms := []string{self}
		for i := 0; i < k; i++ {
			atoms = append(atoms, fmt.Sprintf("inst%d.ID", i))
		}
		h := &Harness{Fn: rb, Groups: []Group{{Atoms: atoms, EqOnly: true}}, Bools: []string{"changed"}, Quiet: quietLog, MaxSteps: 20000, Concrete: true,
			Args: map[string]func(st *State) AV{listP: func(st *State) AV {
				var cs []*cell
				for i := 0; i < kk; i++ {
					cs = append(cs, &cell{typ: inst, sym: fmt.Sprintf("inst%d", i)})
				}
				return avSlice{cells: cs, sym: "liveList"}
			}},
			Oracle: func(st *State, name string, args []AV, res *types.Tuple) ([]AV, bool) {
				if name == fname(isChanged) {
					return []AV{avBool{st.B("changed")}}, true
				}
				return nil, false
			}}
		c.oae(id, fmt.Sprintf("cbm:numbering[%d instances]", k), rb.Pos(), h, func(st *State, out *Outcome) string {
			first := -1
			for i := 0; i < kk; i++ {
				if st.Eq(fmt.Sprintf("inst%d.ID", i), self) && first < 0 {
					first = i
				}
			}
			var pubs []Effect
			for _, e := range out.Trace {
				if strings.HasSuffix(e.Name, ".Publish") {
					pubs = append(pubs, e)
				}
			}
			if first < 0 {
				if !out.Panicked || len(pubs) != 0 {
					return "this member is not in the live list, yet the round goes on: " + out.TraceString()
				}
				return ""
			}
			if out.Panicked {
				return "panics although this member is in the list"
			}
			ics := out.Effects(fname(isChanged))
			if len(ics) != 1 {
				return fmt.Sprintf("the change test is made %d times", len(ics))
			}
			num, okN := structFieldAV(ics[0].Args[0], "MemberNumber")
			tot, okT := structFieldAV(ics[0].Args[0], "TotalMembers")
			if !okN || !okT || avString(num) != fmt.Sprint(first+1) || avString(tot) != fmt.Sprint(kk) {
				return fmt.Sprintf("numbers itself %s of %s (expected %d of %d: position of the first instance with its id, length of the list)", avString(num), avString(tot), first+1, kk)
			}
			if !strings.HasSuffix(avString(ics[0].Args[1]), recv+".info") {
				return "compares with " + avString(ics[0].Args[1]) + ", not with the numbering in effect"
			}
			want := 0
			if st.B("changed") {
				want = 1
			}
			if len(pubs) != want {
				return fmt.Sprintf("%d announcements with changed=%v", len(pubs), st.B("changed"))
			}
			if want == 1 {
				last := pubs[0].Args[len(pubs[0].Args)-1]
				if vs, ok := last.(avSlice); ok && len(vs.cells) == 1 && vs.cells[0].have {
					last = vs.cells[0].val // (the variadic argument list)
				}
				if p, ok := last.(avIface); ok {
					last = p.val
				}
				if a, ok := ics[0].Args[0].(avPtr); !ok || avString(last) != avString(a) {
					// the announced model is the one that was compared
					n2, _ := structFieldAV(last, "MemberNumber")
					if avString(n2) != fmt.Sprint(first+1) {
						return "announces " + avString(last) + ", not the numbering it computed"
					}
				}
			}
			if f, ok := out.Final(recv + ".lastActiveInstances").(avSlice); !ok || f.sym != "liveList" {
				return "does not record the list it numbered from: " + avString(out.Final(recv+".lastActiveInstances"))
			}
			return ""
		}, "number = position of the first instance with this member's id, size = len(list); announce ⇔ changed; record the list; absent ⇒ fatal")
	}
}

// livenessTest (C10): which instances count as live. isAlive compares wall-clock readings, so its truth over time is not
// decidable here; what is decidable is the *linear form* of the comparison it returns: with every operand moved to one
// side it must read  interval + tolerance + lastHeartbeat − now > 0  (≥ accepted: the boundary instant is immaterial),
// whatever the operand order, mirroring or temporaries. A flipped sign or comparison makes every member (or none) count
// as dead — the group renumbers wrongly or stops.
func livenessTest(c *Ctx, id string) {
	w := c.W
	fn := w.Method("couchbase", "cbMembership", "isAlive")
	c.need(fn != nil && len(fn.Params) == 2, id, "cbMembership.isAlive(heartbeatTime)")
	c.see(fn)
	var ret *ssa.Return
	allInstrs(fn, func(in ssa.Instruction) {
		if r, ok := in.(*ssa.Return); ok {
			ret = r
		}
	})
	c.need(ret != nil && len(ret.Results) == 1, id, "isAlive's return")
	cmp, ok := unwrap(ret.Results[0]).(*ssa.BinOp)
	if !ok {
		c.Undecided(id, "liveness-form", fn.Pos(), "isAlive does not return a comparison: %s", w.Origin(ret.Results[0]))
		return
	}
	// linear form of an integer expression over leaves
	depth := 0
	var lin func(v ssa.Value, sign int, out map[string]int) bool
	lin = func(v ssa.Value, sign int, out map[string]int) bool {
		switch x := v.(type) {
		case *ssa.BinOp:
			switch x.Op.String() {
			case "+":
				return lin(x.X, sign, out) && lin(x.Y, sign, out)
			case "-":
				return lin(x.X, sign, out) && lin(x.Y, -sign, out)
			}
			return false
		case *ssa.Convert:
			return lin(x.X, sign, out)
		case *ssa.ChangeType:
			return lin(x.X, sign, out)
		case *ssa.Call:
			// d.Nanoseconds() is d in nanoseconds
			if cal := x.Common().StaticCallee(); cal != nil && cal.Name() == "Nanoseconds" && len(x.Common().Args) == 1 {
				return lin(x.Common().Args[0], sign, out)
			}
		}
		// a field of the membership that is written once (a window computed at construction): what was stored
		if ld, isLd := v.(*ssa.UnOp); isLd && ld.Op.String() == "*" && depth < 3 {
			if f := fieldOfAddr(ld.X); f != nil {
				if sts := w.fieldStores(f); len(sts) == 1 {
					depth++
					ok := lin(sts[0].Store.Val, sign, out)
					depth--
					return ok
				}
			}
		}
		out[w.Origin(v)] += sign
		return true
	}
	form := map[string]int{}
	var okL bool
	switch cmp.Op.String() {
	case "<", "<=": // X < Y  ⇔  Y − X > 0
		okL = lin(cmp.Y, 1, form) && lin(cmp.X, -1, form)
	case ">", ">=": // X > Y  ⇔  X − Y > 0
		okL = lin(cmp.X, 1, form) && lin(cmp.Y, -1, form)
	}
	if !okL {
		c.Undecided(id, "liveness-form", cmp.Pos(), "the liveness comparison is not a sum/difference of readings: %s", w.Origin(cmp))
		return
	}
	role := func(o string) string {
		switch {
		case strings.HasSuffix(o, ".HeartbeatInterval"):
			return "interval"
		case strings.HasSuffix(o, ".HeartbeatToleranceDuration"):
			return "tolerance"
		case o == "param("+fn.Params[1].Name()+")":
			return "lastHeartbeat"
		case strings.Contains(o, "UnixNano)(call(time.Now)())"):
			return "now"
		}
		return o
	}
	got := map[string]int{}
	for o, k := range form {
		if k != 0 {
			got[role(o)] += k
		}
	}
	want := map[string]int{"interval": 1, "tolerance": 1, "lastHeartbeat": 1, "now": -1}
	same := len(got) == len(want)
	for k, v := range want {
		if got[k] != v {
			same = false
		}
	}
	c.Check(same, id, "liveness-form", cmp.Pos(), "alive ⇔ interval + tolerance + lastHeartbeat − now > 0", fmt.Sprintf("the liveness test reads %v > 0, expected interval + tolerance + lastHeartbeat − now > 0", got))
}
