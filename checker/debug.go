package main

import (
	"fmt"
	"os"
	"strings"

	"golang.org/x/tools/go/ssa"
)

// debugOrigins prints, for every module function whose name contains sub, each call / store with
// the origin terms of its operands. Development aid only.
func debugOrigins(w *World, sub string) {
	for _, fn := range w.ModFuncs {
		if !strings.Contains(fname(fn), sub) {
			continue
		}
		fmt.Printf("== %s\n", fname(fn))
		for _, b := range fn.Blocks {
			var gs []string
			for _, g := range guardsOf(b) {
				gs = append(gs, fmt.Sprintf("%v:%s", g.Branch, w.Origin(g.Cond)))
			}
			fmt.Printf(" block %d guards[%s]\n", b.Index, strings.Join(gs, " ; "))
			for _, in := range b.Instrs {
				switch x := in.(type) {
				case ssa.CallInstruction:
					p := &prov{w: w}
					fmt.Printf("   %T %s  @%s\n", in, p.call(x.Common(), 0), w.pos(in.Pos()))
				case *ssa.Store:
					fmt.Printf("   store %s := %s\n", w.Origin(x.Addr), w.Origin(x.Val))
				case *ssa.Return:
					var rs []string
					for _, r := range x.Results {
						rs = append(rs, w.Origin(r))
					}
					fmt.Printf("   return %s\n", strings.Join(rs, ", "))
				case *ssa.Send:
					fmt.Printf("   send %s <- %s\n", w.Origin(x.Chan), w.Origin(x.X))
				case *ssa.Panic:
					fmt.Printf("   panic %s\n", w.Origin(x.X))
				}
			}
		}
	}
}

func init() {
	for i, a := range os.Args {
		if a == "-origins" && i+1 < len(os.Args) {
			root := "/repo"
			for j, b := range os.Args {
				if b == "-repo" && j+1 < len(os.Args) {
					root = os.Args[j+1]
				}
			}
			w, err := loadWorld(root, nil)
			if err != nil {
				fmt.Println(err)
				os.Exit(2)
			}
			debugOrigins(w, os.Args[i+1])
			os.Exit(0)
		}
	}
}

func init() {
	for _, a := range os.Args {
		if a == "-errsites" {
			root := "/repo"
			for j, b := range os.Args {
				if b == "-repo" && j+1 < len(os.Args) {
					root = os.Args[j+1]
				}
			}
			w, err := loadWorld(root, nil)
			if err != nil {
				fmt.Println(err)
				os.Exit(2)
			}
			errSurvey(&Ctx{W: w}, "survey")
			os.Exit(0)
		}
	}
}

func init() {
	for _, a := range os.Args {
		if a == "-divs" {
			w, err := loadWorld("/repo", nil)
			if err != nil {
				fmt.Println(err)
				os.Exit(2)
			}
			divSurvey(w)
			os.Exit(0)
		}
		if a == "-globals" {
			root := "/repo"
			for j, b := range os.Args {
				if b == "-repo" && j+1 < len(os.Args) {
					root = os.Args[j+1]
				}
			}
			w, err := loadWorld(root, nil)
			if err != nil {
				fmt.Println(err)
				os.Exit(2)
			}
			globalSurvey(w)
			os.Exit(0)
		}
	}
}
