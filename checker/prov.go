package main

// prov.go — value provenance on SSA (P4) and mapping tables read from SSA (P5).
//
// Origin(v) normalises an SSA value to an access-path term such as
//   param(offset).SnapshotMarker.StartSeqNo      call(seqNoMap.Load)#0      const(0)
// following conversions, loads/stores of single-store local cells, closure bindings, extracts and
// field selections. Anything else (arithmetic, phis, unknown calls) stays visible in the term, so a
// rule comparing terms never silently skips an operation.

import (
	"fmt"
	"go/token"
	"go/types"
	"regexp"
	"strings"

	"golang.org/x/tools/go/ssa"
)

type prov struct {
	w     *World
	depth int
	phis  map[*ssa.Phi]int // numbering of phis in order of first appearance
	open  map[*ssa.Phi]bool
}

func (w *World) Origin(v ssa.Value) string {
	p := &prov{w: w}
	return p.origin(v, 0)
}

// escapeTolerant: values of these types are never mutated through a pointer anywhere in the module
// (rules C06.R3 / C03.R4 decide that on every run), so a cell of such a type may escape without
// invalidating "the value stored once is the value read".
var escapeTolerant = func(t types.Type) bool {
	n, ok := types.Unalias(t).(*types.Named)
	if !ok || n.Obj().Pkg() == nil {
		return false
	}
	if strings.Contains(n.Obj().Pkg().Path(), "gocbcore") {
		return true
	}
	if strings.HasSuffix(n.Obj().Pkg().Path(), "/models") && (n.Obj().Name() == "Offset" || n.Obj().Name() == "SnapshotMarker") {
		return true
	}
	return false
}

// singleStore returns the only value ever stored directly into the cell `addr` (an Alloc or a closure
// cell), provided the address does not escape other than through loads, stores and closure bindings.
func singleStore(addr ssa.Value) (ssa.Value, bool) {
	a, ok := addr.(*ssa.Alloc)
	if !ok {
		return nil, false
	}
	var stored ssa.Value
	n := 0
	for _, r := range *a.Referrers() {
		switch x := r.(type) {
		case *ssa.Store:
			if x.Addr == a {
				stored = x.Val
				n++
			} else if !escapeTolerant(a.Type().(*types.Pointer).Elem()) {
				return nil, false // the address itself is stored somewhere
			}
		case *ssa.UnOp:
			// load
		case *ssa.MakeClosure:
			// captured by reference: look for stores inside the closure
			if f, ok := x.Fn.(*ssa.Function); ok {
				for i, b := range x.Bindings {
					if b == a && i < len(f.FreeVars) {
						if closureStoresTo(f, f.FreeVars[i]) {
							return nil, false
						}
					}
				}
			}
		case *ssa.DebugRef:
		case *ssa.FieldAddr:
			// reading a field of the cell is fine; writing one makes it a value built in place
			for _, rr := range *x.Referrers() {
				switch y := rr.(type) {
				case *ssa.UnOp, *ssa.DebugRef:
				case *ssa.FieldAddr:
					for _, r3 := range *y.Referrers() {
						if _, isLoad := r3.(*ssa.UnOp); !isLoad {
							return nil, false
						}
					}
				default:
					return nil, false
				}
			}
		case *ssa.IndexAddr:
			return nil, false
		default:
			return nil, false
		}
	}
	if n == 1 {
		return stored, true
	}
	return nil, false
}

func closureStoresTo(f *ssa.Function, fv *ssa.FreeVar) bool {
	found := false
	for _, r := range *fv.Referrers() {
		switch x := r.(type) {
		case *ssa.Store:
			if x.Addr == fv {
				found = true
			}
		case *ssa.MakeClosure:
			if g, ok := x.Fn.(*ssa.Function); ok {
				for i, b := range x.Bindings {
					if b == fv && i < len(g.FreeVars) && closureStoresTo(g, g.FreeVars[i]) {
						found = true
					}
				}
			}
		}
	}
	return found
}

// bindingOf resolves a free variable of an anonymous function to the value bound at its (unique)
// MakeClosure site in the parent.
func bindingOf(fv *ssa.FreeVar) (ssa.Value, bool) {
	fn := fv.Parent()
	par := fn.Parent()
	if par == nil {
		return nil, false
	}
	idx := -1
	for i, f := range fn.FreeVars {
		if f == fv {
			idx = i
		}
	}
	var res ssa.Value
	n := 0
	allInstrs(par, func(in ssa.Instruction) {
		if mc, ok := in.(*ssa.MakeClosure); ok && mc.Fn == fn && idx < len(mc.Bindings) {
			res = mc.Bindings[idx]
			n++
		}
	})
	if n == 1 {
		return res, true
	}
	return nil, false
}

func (p *prov) origin(v ssa.Value, d int) string {
	if v == nil {
		return "<nil>"
	}
	if d > 24 {
		return "…"
	}
	switch x := v.(type) {
	case *ssa.Parameter:
		if f := x.Parent(); f != nil && f.Signature.Recv() != nil && len(f.Params) > 0 && f.Params[0] == x {
			return "recv" // the receiver, whatever it is called
		}
		return "param(" + x.Name() + ")"
	case *ssa.Const:
		if x.Value == nil {
			return "const(nil)"
		}
		return "const(" + x.Value.ExactString() + ")"
	case *ssa.Global:
		return "global(" + x.Pkg.Pkg.Name() + "." + x.Name() + ")"
	case *ssa.Function:
		return "func(" + fname(x) + ")"
	case *ssa.FreeVar:
		if b, ok := bindingOf(x); ok {
			return p.origin(b, d+1)
		}
		return "free(" + x.Name() + ")"
	case *ssa.ChangeType:
		return p.origin(x.X, d+1)
	case *ssa.Convert:
		return p.origin(x.X, d+1)
	case *ssa.MakeInterface:
		return p.origin(x.X, d+1)
	case *ssa.ChangeInterface:
		return p.origin(x.X, d+1)
	case *ssa.UnOp:
		if x.Op == token.MUL {
			return p.load(x.X, d+1)
		}
		return x.Op.String() + p.origin(x.X, d+1)
	case *ssa.Field:
		if par, ok := x.X.(*ssa.Parameter); ok && par.Parent() != nil && par.Parent().Signature.Recv() != nil && par.Parent().Params[0] == par {
			if st, isSt := par.Type().Underlying().(*types.Struct); isSt {
				if sv, isCarrier := p.w.carrierField(st.Field(x.Field)); isCarrier {
					return p.origin(sv, d+1) // a field of a carrier used by value
				}
			}
		}
		return p.origin(x.X, d+1) + fieldSeg(x.X.Type(), x.Field)
	case *ssa.FieldAddr:
		if al, ok := x.X.(*ssa.Alloc); ok {
			if s, ok := singleStore(al); ok {
				return "&" + p.origin(s, d+1) + fieldSeg(x.X.Type(), x.Field)
			}
		}
		if fa2, ok := x.X.(*ssa.FieldAddr); ok {
			return p.origin(fa2, d+1) + fieldSeg(x.X.Type(), x.Field)
		}
		// the copy of a by-value parameter that a closure captured (`args forwardArgs` used inside the Ack closure)
		if fv, ok := x.X.(*ssa.FreeVar); ok {
			if b, okb := bindingOf(fv); okb {
				if al, isAl := b.(*ssa.Alloc); isAl {
					if s, oks := singleStore(al); oks {
						if _, isParam := s.(*ssa.Parameter); isParam {
							return "&" + p.origin(s, d+1) + fieldSeg(x.X.Type(), x.Field)
						}
					}
				}
			}
		}
		return "&" + p.origin(x.X, d+1) + fieldSeg(x.X.Type(), x.Field)
	case *ssa.IndexAddr:
		return "&" + p.origin(x.X, d+1) + "[" + p.origin(x.Index, d+1) + "]"
	case *ssa.Index:
		return p.origin(x.X, d+1) + "[" + p.origin(x.Index, d+1) + "]"
	case *ssa.Lookup:
		return p.origin(x.X, d+1) + "[" + p.origin(x.Index, d+1) + "]"
	case *ssa.Extract:
		// a result of a thin forwarding wrapper (`func newCtx() (context.Context, context.CancelFunc) { return context.WithTimeout(…) }`)
		if call, ok := x.Tuple.(*ssa.Call); ok && d < 20 {
			if f := call.Common().StaticCallee(); f != nil && !call.Common().IsInvoke() {
				var args []string
				for _, a := range call.Common().Args {
					args = append(args, p.origin(a, d+1))
				}
				if t, ok := p.accessorN(f, args, x.Index, d); ok {
					return t
				}
			}
		}
		return p.origin(x.Tuple, d+1) + fmt.Sprintf("#%d", x.Index)
	case *ssa.TypeAssert:
		return "assert(" + p.origin(x.X, d+1) + "," + shortType(x.AssertedType) + ")"
	case *ssa.Call:
		return p.call(x.Common(), d+1)
	case *ssa.Alloc:
		return "&new(" + shortType(x.Type().(*types.Pointer).Elem()) + ")"
	case *ssa.MakeClosure:
		return "closure(" + fname(x.Fn.(*ssa.Function)) + ")"
	case *ssa.BinOp:
		return "(" + p.origin(x.X, d+1) + " " + x.Op.String() + " " + p.origin(x.Y, d+1) + ")"
	case *ssa.Phi:
		if p.phis == nil {
			p.phis, p.open = map[*ssa.Phi]int{}, map[*ssa.Phi]bool{}
		}
		k, seen := p.phis[x]
		if !seen {
			k = len(p.phis) + 1
			p.phis[x] = k
		}
		if p.open[x] || seen {
			return fmt.Sprintf("φ%d", k) // back-reference (loop-carried value)
		}
		p.open[x] = true
		var parts []string
		for _, e := range x.Edges {
			parts = append(parts, p.origin(e, d+1))
		}
		p.open[x] = false
		return fmt.Sprintf("φ%d(", k) + strings.Join(parts, " | ") + ")"
	case *ssa.Slice:
		return p.origin(x.X, d+1) + "[" + p.origin(x.Low, d+1) + ":" + p.origin(x.High, d+1) + "]"
	case *ssa.MakeMap:
		return "makemap"
	case *ssa.MakeSlice:
		return "makeslice"
	case *ssa.MakeChan:
		return "makechan(" + p.origin(x.Size, d+1) + ")"
	case *ssa.Next:
		return "next(" + p.origin(x.Iter, d+1) + ")"
	case *ssa.Range:
		return "range(" + p.origin(x.X, d+1) + ")"
	}
	return fmt.Sprintf("?%T", v)
}

func (p *prov) load(addr ssa.Value, d int) string {
	switch a := addr.(type) {
	case *ssa.FieldAddr:
		if al, ok := a.X.(*ssa.Alloc); ok {
			if s, ok := singleStore(al); ok {
				// the spilled value receiver of a carrier's method
				if par, isP := s.(*ssa.Parameter); isP && par.Parent() != nil && par.Parent().Signature.Recv() != nil && par.Parent().Params[0] == par {
					if sv, isCarrier := p.w.carrierField(fieldOfAddr(a)); isCarrier {
						return p.origin(sv, d+1)
					}
				}
				return p.origin(s, d+1) + fieldSeg(a.X.Type(), a.Field)
			}
		}
		if fa2, ok := a.X.(*ssa.FieldAddr); ok { // &(&x.f).g  — nested struct by value
			return strings.TrimPrefix(p.origin(fa2, d+1), "&") + fieldSeg(a.X.Type(), a.Field)
		}
		// the copy of a by-value parameter that a closure captured
		if fv, ok := a.X.(*ssa.FreeVar); ok {
			if b, okb := bindingOf(fv); okb {
				if al, isAl := b.(*ssa.Alloc); isAl {
					if s, oks := singleStore(al); oks {
						if _, isParam := s.(*ssa.Parameter); isParam {
							return p.origin(s, d+1) + fieldSeg(a.X.Type(), a.Field)
						}
					}
				}
			}
		}
		// a field of a carrier — the struct a closure's captured variables were turned into when the closure became a
		// method value (`dump.Range((&restorer{seqNoMap: m, offsets: o}).restore)`): what was put there when it was built
		if par, ok := a.X.(*ssa.Parameter); ok && par.Parent() != nil && par.Parent().Signature.Recv() != nil && par.Parent().Params[0] == par {
			if sv, isCarrier := p.w.carrierField(fieldOfAddr(a)); isCarrier {
				return p.origin(sv, d+1)
			}
		}
		return p.origin(a.X, d+1) + fieldSeg(a.X.Type(), a.Field)
	case *ssa.IndexAddr:
		return p.origin(a.X, d+1) + "[" + p.origin(a.Index, d+1) + "]"
	case *ssa.Alloc:
		if s, ok := singleStore(a); ok {
			return p.origin(s, d+1)
		}
		return "*" + p.origin(a, d+1)
	case *ssa.FreeVar:
		if b, ok := bindingOf(a); ok {
			return p.load(b, d+1)
		}
	case *ssa.Global:
		return "global(" + a.Pkg.Pkg.Name() + "." + a.Name() + ")"
	}
	return "*" + p.origin(addr, d+1)
}

func (p *prov) call(cc *ssa.CallCommon, d int) string {
	var args []string
	for _, a := range cc.Args {
		args = append(args, p.origin(a, d+1))
	}
	if cc.IsInvoke() {
		return "call(" + p.origin(cc.Value, d+1) + "." + cc.Method.Name() + ")(" + strings.Join(args, ", ") + ")"
	}
	if f := cc.StaticCallee(); f != nil {
		if t, ok := p.accessor(f, args, d); ok {
			return t
		}
		if len(f.TypeArgs()) > 0 && f.Origin() != nil {
			return "call(" + fname(f.Origin()) + ")(" + strings.Join(args, ", ") + ")"
		}
		return "call(" + fname(f) + ")(" + strings.Join(args, ", ") + ")"
	}
	if b, ok := cc.Value.(*ssa.Builtin); ok {
		return b.Name() + "(" + strings.Join(args, ", ") + ")"
	}
	return "call(" + p.origin(cc.Value, d+1) + ")(" + strings.Join(args, ", ") + ")"
}

// allocTable: for an Alloc of struct type built in place (composite literal), the field → stored value table.
// ok=false when a field is stored more than once.
func allocTable(a *ssa.Alloc) (map[string]ssa.Value, bool) {
	out := map[string]ssa.Value{}
	ok := true
	for _, r := range *a.Referrers() {
		fa, isFA := r.(*ssa.FieldAddr)
		if !isFA {
			continue
		}
		f := structField(a.Type(), fa.Field)
		for _, rr := range *fa.Referrers() {
			if st, isSt := rr.(*ssa.Store); isSt && st.Addr == fa {
				if _, dup := out[f.Name()]; dup {
					ok = false
				}
				out[f.Name()] = st.Val
			}
		}
	}
	return out, ok
}

// asAlloc resolves a value to the Alloc it points to / was loaded from (a composite literal taken by
// value is `*alloc`, taken by address is `alloc`).
func asAlloc(v ssa.Value) *ssa.Alloc {
	v = unwrap(v)
	switch x := v.(type) {
	case *ssa.Alloc:
		return x
	case *ssa.UnOp:
		if x.Op == token.MUL {
			if a, ok := x.X.(*ssa.Alloc); ok {
				return a
			}
		}
	}
	return nil
}

// allocsOf lists the Allocs of the given named struct type in fn (composite literals and locals).
func allocsOf(fn *ssa.Function, named *types.Named) []*ssa.Alloc {
	var out []*ssa.Alloc
	allInstrs(fn, func(in ssa.Instruction) {
		if a, ok := in.(*ssa.Alloc); ok {
			if types.Identical(types.Unalias(a.Type().(*types.Pointer).Elem()), named) {
				out = append(out, a)
			}
		}
	})
	return out
}

// argByName returns the argument bound to the callee parameter called name.
func argByName(cc *ssa.CallCommon, name string) ssa.Value {
	sig := cc.Signature()
	off := 0
	if !cc.IsInvoke() && sig.Recv() != nil {
		off = 1
	}
	ps := sig.Params()
	for i := 0; i < ps.Len(); i++ {
		if ps.At(i).Name() == name && i+off < len(cc.Args) {
			return cc.Args[i+off]
		}
	}
	return nil
}

func tableStr(w *World, t map[string]ssa.Value) string {
	var parts []string
	for _, k := range sortedKeys(t) {
		parts = append(parts, k+"←"+w.Origin(t[k]))
	}
	return strings.Join(parts, ", ")
}

// ---------------------------------------------------------------------------------------------
// literals seen through one level of helper

// Lit is a struct literal in origin terms of the function that (directly or through one module-local
// helper call) builds it.
type Lit struct {
	Table map[string]string // flattened field path → origin term, in the caller's terms
	Pos   token.Pos
	At    ssa.Instruction // the alloc, or the helper call in the caller
	Alloc *ssa.Alloc      // non-nil when built in place in the caller
}

var reRecv = regexp.MustCompile(`\brecv\b`)

// litOf resolves v to the struct literal it denotes: an in-place literal, or the result of a call to a
// module function all of whose returns are an in-place literal (one level), with the callee's parameters
// and receiver substituted by the argument origins of the call.
func (w *World) litOf(v ssa.Value) (*Lit, bool) {
	if a := asAlloc(v); a != nil {
		if _, isStruct := a.Type().(*types.Pointer).Elem().Underlying().(*types.Struct); isStruct {
			t := map[string]string{}
			if !flattenAllocW(w, a, "", t, 0) {
				return nil, false
			}
			return &Lit{Table: t, Pos: a.Pos(), At: a, Alloc: a}, true
		}
	}
	call, ok := unwrap(v).(*ssa.Call)
	if !ok {
		if u, isU := unwrap(v).(*ssa.UnOp); isU && u.Op == token.MUL {
			call, ok = u.X.(*ssa.Call)
		}
		if !ok {
			return nil, false
		}
	}
	f := call.Common().StaticCallee()
	if f == nil || f.Blocks == nil || !w.inModule(f) {
		return nil, false
	}
	var lit *ssa.Alloc
	n := 0
	allInstrs(f, func(in ssa.Instruction) {
		if r, ok := in.(*ssa.Return); ok && len(r.Results) == 1 {
			n++
			lit = asAlloc(r.Results[0])
		}
	})
	if n != 1 || lit == nil {
		return nil, false
	}
	t := map[string]string{}
	if !flattenAllocW(w, lit, "", t, 0) {
		return nil, false
	}
	// substitute
	subst := map[string]string{}
	for i, p := range f.Params {
		if i < len(call.Common().Args) {
			ao := w.Origin(call.Common().Args[i])
			if f.Signature.Recv() != nil && i == 0 {
				subst["recv"] = ao
			} else {
				subst["param("+p.Name()+")"] = ao
			}
		}
	}
	out := map[string]string{}
	for k, o := range t {
		for from, to := range subst {
			if from == "recv" {
				continue
			}
			o = strings.ReplaceAll(o, from, "\x00"+to+"\x00")
		}
		if r, ok := subst["recv"]; ok {
			o = reRecv.ReplaceAllString(o, r)
		}
		out[k] = strings.ReplaceAll(o, "\x00", "")
	}
	return &Lit{Table: out, Pos: call.Pos(), At: call}, true
}

func flattenAllocW(w *World, a *ssa.Alloc, prefix string, out map[string]string, depth int) bool {
	tab, ok := allocTable(a)
	if !ok {
		return false
	}
	for k, v := range tab {
		if na := asAlloc(v); na != nil && depth < 4 {
			if _, isStruct := na.Type().(*types.Pointer).Elem().Underlying().(*types.Struct); isStruct {
				if !flattenAllocW(w, na, prefix+k+".", out, depth+1) {
					return false
				}
				continue
			}
		}
		if l, ok := w.litOf(v); ok && depth < 4 && l.Alloc == nil {
			for kk, vv := range l.Table {
				out[prefix+k+"."+kk] = vv
			}
			continue
		}
		out[prefix+k] = w.Origin(v)
	}
	return true
}

// litsIn lists the literals of the named struct type that fn builds in place or obtains from a one-level helper.
func (w *World) litsIn(fn *ssa.Function, named *types.Named) []*Lit {
	var out []*Lit
	allInstrs(fn, func(in ssa.Instruction) {
		switch x := in.(type) {
		case *ssa.Alloc:
			if types.Identical(types.Unalias(x.Type().(*types.Pointer).Elem()), named) {
				if l, ok := w.litOf(x); ok {
					out = append(out, l)
				}
			}
		case *ssa.Call:
			rt := x.Type()
			if p, ok := rt.Underlying().(*types.Pointer); ok {
				rt = p.Elem()
			}
			if types.Identical(types.Unalias(rt), named) {
				if l, ok := w.litOf(x); ok {
					out = append(out, l)
				}
			}
		}
	})
	return out
}

// accessor: a module-local function whose whole body is `return <path>` — loads and field selections starting at one of
// its parameters, no call, no store, no branch — denotes that path. The term of a call of it is the path with the
// parameter replaced by the argument's term, so `s.rebalanceDelay()` and `s.config.….RebalanceDelay` are one origin.
func (p *prov) accessor(f *ssa.Function, args []string, d int) (string, bool) {
	if ret := p.w.forwardingBody(f); ret == nil || len(ret.Results) != 1 {
		return "", false
	}
	return p.accessorN(f, args, 0, d)
}

func (p *prov) accessorN(f *ssa.Function, args []string, idx int, d int) (string, bool) {
	if p.w == nil || len(f.Params) != len(args) || d > 20 {
		return "", false
	}
	ret := p.w.forwardingBody(f)
	if ret == nil || idx >= len(ret.Results) {
		return "", false
	}
	q := &prov{w: p.w}
	t := q.origin(ret.Results[idx], d+1)
	if strings.Contains(t, "φ") || strings.Contains(t, "free(") {
		return "", false
	}
	return substParams(t, f, args), true
}

// substParams replaces the parameter tokens of f in the term t by the argument terms (one pass, so an argument term is
// never rewritten).
func substParams(t string, f *ssa.Function, args []string) string {
	var b strings.Builder
	for i := 0; i < len(t); {
		matched := false
		for k, prm := range f.Params {
			if k >= len(args) {
				break
			}
			tok := "param(" + prm.Name() + ")"
			if k == 0 && f.Signature.Recv() != nil {
				tok = "recv"
			}
			if strings.HasPrefix(t[i:], tok) {
				// token boundaries
				before := i == 0 || strings.ContainsRune("(, &*[-!", rune(t[i-1]))
				j := i + len(tok)
				after := j == len(t) || strings.ContainsRune(".),] [#", rune(t[j]))
				if before && after {
					b.WriteString(args[k])
					i = j
					matched = true
					break
				}
			}
		}
		if !matched {
			b.WriteByte(t[i])
			i++
		}
	}
	return b.String()
}

// successValueOf: v is result idx of a plain call of a module helper that returns (..., error): the term of what the
// helper returns at idx on the paths on which its error result is nil, in the caller's terms — "" if the paths disagree
// or v is not of that form. (`offset, err := s.offsetOf(vbID)` denotes what offsetOf returns when it succeeds.)
func (w *World) successValueOf(v ssa.Value) string {
	ex, ok := unwrap(v).(*ssa.Extract)
	if !ok {
		return ""
	}
	call, ok := ex.Tuple.(*ssa.Call)
	if !ok {
		return ""
	}
	h := call.Common().StaticCallee()
	if h == nil || h.Blocks == nil || !w.inModule(h) || call.Common().IsInvoke() {
		return ""
	}
	res := h.Signature.Results()
	if res.Len() < 2 || !types.Identical(res.At(res.Len()-1).Type(), types.Universe.Lookup("error").Type()) || ex.Index >= res.Len()-1 {
		return ""
	}
	term := ""
	okAll := true
	allInstrs(h, func(in ssa.Instruction) {
		r, isR := in.(*ssa.Return)
		if !isR || len(r.Results) != res.Len() {
			return
		}
		if !isNilConst(r.Results[len(r.Results)-1]) {
			return // a failing path
		}
		t := w.Origin(r.Results[ex.Index])
		if term == "" {
			term = t
		} else if term != t {
			okAll = false
		}
	})
	if !okAll || term == "" || strings.Contains(term, "φ") {
		return ""
	}
	var args []string
	for _, a := range call.Common().Args {
		args = append(args, w.Origin(a))
	}
	return substParams(term, h, args)
}

// forwardingBody: f is a module-local function whose single block only loads, selects fields, converts and makes
// static calls, and returns one value — a pure accessor or a thin forwarding wrapper. Returns the return instruction.
func (w *World) forwardingBody(f *ssa.Function) *ssa.Return {
	if f == nil || !w.inModule(f) || len(f.Blocks) != 1 || len(f.FreeVars) > 0 {
		return nil
	}
	if f.Signature.Recv() != nil && recvTypeName(f.Signature.Recv().Type()) == "ConcurrentSwissMap" {
		return nil // the map wrapper's methods are the primitives the rules speak about (C04.R9 decides that they forward)
	}
	var ret *ssa.Return
	nCalls := 0
	for _, in := range f.Blocks[0].Instrs {
		switch x := in.(type) {
		case *ssa.FieldAddr, *ssa.Field, *ssa.ChangeType, *ssa.Convert, *ssa.DebugRef, *ssa.MakeInterface, *ssa.Extract:
		case *ssa.UnOp:
			if x.Op != token.MUL {
				return nil
			}
		case *ssa.Call:
			if x.Common().IsInvoke() || x.Common().StaticCallee() == nil {
				return nil
			}
			nCalls++
		case *ssa.Return:
			ret = x
		default:
			return nil
		}
	}
	if ret == nil || len(ret.Results) < 1 || nCalls > 3 {
		return nil
	}
	return ret
}

// pureAccessor: f is a module-local function consisting of loads and field selections followed by the return of one
// value (no call, store, branch, free variable). Returns that return instruction, or nil.
func (w *World) pureAccessor(f *ssa.Function) *ssa.Return {
	if f == nil || !w.inModule(f) || len(f.Blocks) != 1 || len(f.Params) == 0 || len(f.FreeVars) > 0 {
		return nil
	}
	var ret *ssa.Return
	for _, in := range f.Blocks[0].Instrs {
		switch x := in.(type) {
		case *ssa.FieldAddr, *ssa.Field, *ssa.ChangeType, *ssa.Convert, *ssa.DebugRef:
		case *ssa.UnOp:
			if x.Op != token.MUL {
				return nil
			}
		case *ssa.Return:
			ret = x
		default:
			return nil
		}
	}
	if ret == nil || len(ret.Results) != 1 {
		return nil
	}
	return ret
}

// fieldSeg: the path segment of a field selection. A struct embedded by value is transparent — `s.streamFlags.balancing`
// and `s.balancing` are one location whether or not the flags were grouped into an embedded part — so it contributes no
// segment (an embedded interface or pointer keeps its name: it is a value of its own).
func fieldSeg(t types.Type, idx int) string {
	f := structField(t, idx)
	if embeddedPart(f) {
		return ""
	}
	return "." + f.Name()
}

func embeddedPart(f *types.Var) bool {
	if f == nil || !f.Embedded() {
		return false
	}
	_, isStruct := f.Type().Underlying().(*types.Struct)
	return isStruct
}

// ---------------------------------------------------------------------------------------------
// formal inputs: parameters, and the fields of a parameter bundle

// vparam is a formal input of a function: one of its parameters (F < 0), or field F of a parameter that is passed by
// value and whose type is an unexported struct of the module — a parameter bundle (`waitAndForward(args forwardArgs)`).
type vparam struct {
	P *ssa.Parameter
	F int
}

func (v vparam) field() *types.Var {
	if v.F < 0 {
		return nil
	}
	return v.P.Type().Underlying().(*types.Struct).Field(v.F)
}

func (v vparam) Type() types.Type {
	if f := v.field(); f != nil {
		return f.Type()
	}
	return v.P.Type()
}

// Name: as the evaluator names the symbolic input ("offset", "args.offset").
func (v vparam) Name() string {
	if f := v.field(); f != nil {
		return v.P.Name() + "." + f.Name()
	}
	return v.P.Name()
}

// Term: as provenance prints it ("param(offset)", "param(args).offset").
func (v vparam) Term() string {
	if f := v.field(); f != nil {
		return "param(" + v.P.Name() + ")." + f.Name()
	}
	return "param(" + v.P.Name() + ")"
}

func isBundle(t types.Type) bool {
	n, ok := types.Unalias(t).(*types.Named)
	if !ok || n.Obj().Exported() || n.Obj().Pkg() == nil || !strings.HasPrefix(n.Obj().Pkg().Path(), modPath) {
		return false
	}
	st, ok := n.Underlying().(*types.Struct)
	return ok && st.NumFields() > 0 && st.NumFields() <= 10
}

// vparams: the formal inputs of fn (the receiver excluded), bundles expanded.
func vparams(fn *ssa.Function) []vparam {
	var out []vparam
	ps := fn.Params
	if fn.Signature.Recv() != nil && len(ps) > 0 {
		ps = ps[1:]
	}
	for _, p := range ps {
		if isBundle(p.Type()) {
			st := p.Type().Underlying().(*types.Struct)
			for i := 0; i < st.NumFields(); i++ {
				out = append(out, vparam{p, i})
			}
			continue
		}
		out = append(out, vparam{p, -1})
	}
	return out
}

// isVParamOf: the term is one of fn's formal inputs.
func isVParamOf(origin string, fn *ssa.Function) bool {
	for _, v := range vparams(fn) {
		if origin == v.Term() {
			return true
		}
	}
	return false
}

// argOfVParam: what a call site hands in for the formal input: the argument, or — for a bundle — the value the
// composite literal at the call site gives that field.
func argOfVParam(cc *ssa.CallCommon, callee *ssa.Function, v vparam) ssa.Value {
	a := argOfParam(cc, callee, v.P)
	if a == nil || v.F < 0 {
		return a
	}
	al := asAlloc(a)
	if al == nil {
		return nil
	}
	tab, _ := allocTable(al)
	return tab[v.field().Name()]
}

// carrierField: f is a field of a carrier struct — an unexported struct of the module that is built at exactly one place,
// by a literal whose address goes nowhere but into method values and method calls of that struct (never stored,
// returned or handed to anything else), each field set once while it is built. Returns what f was set to there.
var carrierCache = map[*types.Var]ssa.Value{}
var carrierKnown = map[*types.Var]bool{}

func (w *World) carrierField(f *types.Var) (ssa.Value, bool) {
	if f == nil || f.Exported() || f.Pkg() == nil || !strings.HasPrefix(f.Pkg().Path(), modPath) {
		return nil, false
	}
	if carrierKnown[f] {
		v := carrierCache[f]
		return v, v != nil
	}
	carrierKnown[f] = true
	stores := w.fieldStores(f)
	if len(stores) != 1 {
		return nil, false
	}
	al := rootAlloc(stores[0].Store.Addr)
	if al == nil {
		return nil, false
	}
	if fa, ok := stores[0].Store.Addr.(*ssa.FieldAddr); !ok || fa.X != ssa.Value(al) {
		return nil, false
	}
	T := al.Type().(*types.Pointer).Elem()
	named, ok := types.Unalias(T).(*types.Named)
	if !ok || named.Obj().Exported() {
		return nil, false
	}
	// the only literal of that type in the module (the cell a value receiver is spilled to is not one)
	n := 0
	for _, fn := range w.ModFuncs {
		allInstrs(fn, func(in ssa.Instruction) {
			if a2, isAl := in.(*ssa.Alloc); isAl && types.Identical(a2.Type().(*types.Pointer).Elem(), T) {
				if sv, one := singleStore(a2); one {
					if _, isParam := sv.(*ssa.Parameter); isParam {
						return
					}
				}
				n++
			}
		})
	}
	if n != 1 {
		return nil, false
	}
	for _, r := range *al.Referrers() {
		switch x := r.(type) {
		case *ssa.FieldAddr:
			for _, rr := range *x.Referrers() {
				if st, isSt := rr.(*ssa.Store); !isSt || st.Addr != ssa.Value(x) {
					return nil, false
				}
			}
		case *ssa.MakeClosure:
			fnc, isF := x.Fn.(*ssa.Function)
			if !isF || !strings.HasSuffix(fnc.Name(), "$bound") {
				return nil, false
			}
		case *ssa.Call:
			cal := x.Common().StaticCallee()
			if cal == nil || cal.Signature.Recv() == nil || len(x.Common().Args) == 0 || x.Common().Args[0] != ssa.Value(al) {
				return nil, false
			}
			for _, a := range x.Common().Args[1:] {
				if a == ssa.Value(al) {
					return nil, false
				}
			}
		case *ssa.UnOp: // a carrier used by value: the copy goes only into a method value or a method call
			if x.Op != token.MUL || x.Referrers() == nil {
				return nil, false
			}
			for _, rr := range *x.Referrers() {
				switch y := rr.(type) {
				case *ssa.MakeClosure:
					fnc, isF := y.Fn.(*ssa.Function)
					if !isF || !strings.HasSuffix(fnc.Name(), "$bound") {
						return nil, false
					}
				case *ssa.Call:
					cal := y.Common().StaticCallee()
					if cal == nil || cal.Signature.Recv() == nil || len(y.Common().Args) == 0 || y.Common().Args[0] != ssa.Value(x) {
						return nil, false
					}
				case *ssa.DebugRef:
				default:
					return nil, false
				}
			}
		case *ssa.DebugRef:
		default:
			return nil, false
		}
	}
	carrierCache[f] = stores[0].Store.Val
	return stores[0].Store.Val, true
}
