package main

// extras.go — thorough-tier extras: wider OAE bounds (in the rules) and the replay of the
// property's confirmed seeded changes (/verif/seeded/<prop>-<n>/patch.diff) as positive controls.

import (
	"encoding/json"
	"fmt"
	"io"
	"os"
	"os/exec"
	"path/filepath"
	"sort"
	"strings"
)

// controlOverlay is kept for compatibility with the first design (synthetic overlay controls were
// replaced by the seeded-change replay below).
func controlOverlay(repo string) map[string][]byte { return nil }

var outDir = "/verif"

// runRules evaluates a property's rules on a world and returns the context.
func runRules(w *World, p *Property, tier string) *Ctx {
	c := newCtx(w, p.ID, tier)
	for _, r := range p.Rules {
		if r.ThoroughOnly && tier != "thorough" {
			continue
		}
		c.Rule(r.ID, r.Text)
		rr := r
		c.run(r.ID, func() { rr.Run(c, rr.ID) })
	}
	return c
}

func failing(c *Ctx) []string {
	var out []string
	for _, o := range c.Obs {
		if o.Verdict == Violated || o.Verdict == Undecided {
			out = append(out, o.Key)
		}
	}
	sort.Strings(out)
	return out
}

func thoroughExtras(c *Ctx, p *Property) {
	// (1) "cover what the build covers": the repository has no build tags and does not build for 32-bit
	// targets (bytedance/sonic refuses GOARCH=386), so there is exactly one configuration to analyse.
	// (2) positive controls: replay the property's seeded changes
	c.Rule(p.ID+".X2", "thorough: every confirmed seeded change of this property (that still applies) makes this check fail — the check is not vacuous")
	dirs, _ := filepath.Glob(filepath.Join(outDir, "seeded", p.ID+"-*"))
	sort.Strings(dirs)
	for _, d := range dirs {
		id := filepath.Base(d)
		var meta struct {
			Detection struct {
				Own string `json:"own_property_check"`
			} `json:"detection"`
		}
		if b, err := os.ReadFile(filepath.Join(d, "meta.json")); err == nil {
			_ = json.Unmarshal(b, &meta)
		}
		if meta.Detection.Own != "caught" {
			c.OKTrivial(p.ID+".X2", "seed:"+id, 0, "recorded as not detectable by this rule set (see DESIGN.md §5); not used as a control")
			continue
		}
		// a fixed scratch path per property: the Go build cache then serves the unchanged packages of every replay
		// instead of growing by one copy of the module per seed
		tmp := filepath.Join(os.TempDir(), "dcpverif-control-"+p.ID)
		_ = os.RemoveAll(tmp)
		err := os.MkdirAll(tmp, 0o755)
		if err != nil {
			c.Undecided(p.ID+".X2", "seed:"+id, 0, "cannot create scratch directory: %v", err)
			continue
		}
		func() {
			defer os.RemoveAll(tmp)
			dst := filepath.Join(tmp, "repo")
			if err := copyTree(c.W.Repo, dst); err != nil {
				c.Undecided(p.ID+".X2", "seed:"+id, 0, "cannot copy the repository: %v", err)
				return
			}
			cmd := exec.Command("patch", "-p1", "-s", "-f", "-i", filepath.Join(d, "patch.diff"))
			cmd.Dir = dst
			if out, err := cmd.CombinedOutput(); err != nil {
				c.OKTrivial(p.ID+".X2", "seed:"+id, 0, "patch does not apply to the current tree (skipped): %s", strings.TrimSpace(firstLine(string(out))))
				return
			}
			w2, err := loadWorld(dst, nil)
			if err != nil {
				c.OKTrivial(p.ID+".X2", "seed:"+id, 0, "patched tree does not type-check together with the current tree's other edits (skipped)")
				return
			}
			c2 := runRules(w2, p, "quick")
			// obligations failing on the seeded tree that do not already fail on the current tree
			cur := map[string]bool{}
			for _, k := range failing(c) {
				cur[k] = true
			}
			var fresh []string
			for _, k := range failing(c2) {
				if !cur[k] {
					fresh = append(fresh, k)
				}
			}
			c.States += c2.States
			if len(fresh) > 0 {
				c.OK(p.ID+".X2", "seed:"+id, 0, "control fires: %s", strings.Join(fresh, " ; "))
			} else {
				c.Undecided(p.ID+".X2", "seed:"+id, 0, "a change known to break this property is no longer reported — the rule set has become vacuous for it")
			}
		}()
	}
}

func firstLine(s string) string {
	if i := strings.IndexByte(s, '\n'); i >= 0 {
		return s[:i]
	}
	return s
}

func copyTree(src, dst string) error {
	return filepath.Walk(src, func(path string, info os.FileInfo, err error) error {
		if err != nil {
			return err
		}
		rel, _ := filepath.Rel(src, path)
		if rel == ".git" || strings.HasPrefix(rel, ".git"+string(filepath.Separator)) {
			if info.IsDir() {
				return filepath.SkipDir
			}
			return nil
		}
		target := filepath.Join(dst, rel)
		if info.IsDir() {
			return os.MkdirAll(target, 0o755)
		}
		if !info.Mode().IsRegular() {
			return nil
		}
		in, err := os.Open(path)
		if err != nil {
			return err
		}
		defer in.Close()
		out, err := os.Create(target)
		if err != nil {
			return err
		}
		defer out.Close()
		_, err = io.Copy(out, in)
		return err
	})
}

var _ = fmt.Sprint
