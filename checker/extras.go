package main

// extras.go — positive-control overlay and thorough-tier extras.

// controlOverlay returns synthetic source files (never written to disk) that are type-checked together
// with the repository: tiny positive examples for rules whose expected violation count is zero.
func controlOverlay(repo string) map[string][]byte {
	return nil
}

func thoroughExtras(c *Ctx, p *Property) {}
