#!/usr/bin/env python3
"""Regenerates /verif/MANIFEST.json from the table below (kept next to the checker so the claim texts
stay in one place). Run: python3 tools/gen_manifest.py"""
import json, os, sys
ROOT = os.path.dirname(os.path.dirname(os.path.abspath(__file__)))

BASELINE_OFF = ("cd /repo && export GOFLAGS=-mod=mod GOPROXY=off GOSUMDB=off GOTOOLCHAIN=local && "
                "go test -json -vet=off -count=1 -timeout 25m ./...")

TRUST = ("Trusted base: Go's type checker and golang.org/x/tools v0.29.0 (go/packages, go/ssa); the documented contracts of the "
         "dependencies the rules treat as primitives (gocbcore calls an operation's callback exactly once; concurrent-swiss-map per-key "
         "operations are atomic; sonic round-trips uint64; errgroup.Wait returns the first error). Dependencies are not analysed. "
         "The verdict is about the shape of the current source, not about an execution.")

# id -> (technique, level text, design_ref)
CLAIMS = {}
NOT_YET = {}

def claim(pid, technique, text, ref):
    CLAIMS[pid] = (technique, text, ref)

exec(open(os.path.join(ROOT, "tools", "claims.py")).read())

props = [json.loads(l) for l in open(os.path.join(ROOT, "properties.jsonl"))]
checks, na = [], []
for p in props:
    pid = p["id"]
    if pid in CLAIMS:
        tech, text, ref = CLAIMS[pid]
        checks.append({
            "property_id": pid,
            "quick_cmd": f"./run.sh {pid} quick",
            "thorough_cmd": f"./run.sh {pid} thorough",
            "evidence_file": f"/verif/evidence/{pid}.json",
            "replay_cmd_template": f"bin/dcpverif -prop {pid} -tier quick -repo /repo -out /verif -v   # violations of the last run: {{path}}",
            "engine": "dcpverif",
            "level_claimed": {"category": "other", "text": text, "design_ref": ref},
            "level_note": TRUST,
            "technique": tech,
        })
    else:
        na.append({"property_id": pid, "reason": NOT_YET.get(pid, "no sound static rule set has been built for this property yet; not claimed")})

m = {
    "version": 1,
    "setup_cmd": "./setup.sh",
    "hooks": {
        "guard": "verif",
        "enable": "none needed: static analysis reads the unmodified sources; no instrumentation is compiled into /repo",
        "baseline_off_cmd": BASELINE_OFF,
        "source_commits": [],
        "add_only": True,
    },
    "engines": [{
        "name": "dcpverif",
        "path": "/verif/checker",
        "serves_properties": sorted(CLAIMS),
        "kind_free_text": "repository-specific static checker (Go, go/packages + go/ssa): who-may-write / who-may-call, CFG dominance and path rules, "
                          "SSA value provenance and mapping tables, exhaustive finite order-abstraction evaluation of guards, error-flow and async-callback protocol rules",
    }],
    "checks": checks,
    "not_applicable": na,
    "notes": "All checks decide structural clauses of the properties from /repo's current source (level 'other'); each level text names the clauses decided and those "
             "that are not. Five genuine defects were repaired by 'fix:' commits in /repo (see KNOWN_FINDINGS.txt); known findings are listed there by obligation key.",
}
json.dump(m, open(os.path.join(ROOT, "MANIFEST.json"), "w"), indent=1)
print("MANIFEST.json:", len(checks), "checks,", len(na), "not applicable")
