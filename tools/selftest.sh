#!/bin/bash
# Self-test of the checker (not a registered check): unchanged tree passes, every seeded change recorded as
# "caught" in its meta.json is reported by the check of its own property, every neutral refactoring is silent.
cd "$(dirname "$0")/.."
export GOFLAGS=-mod=mod GOPROXY=off GOSUMDB=off GOTOOLCHAIN=local GOWORK=off
./setup.sh >/dev/null || exit 2
# the scratch copies fill the Go build cache over time: trim it before it fills the disk
if [ "$(du -sm "$(go env GOCACHE)" 2>/dev/null | cut -f1)" -gt 40000 ]; then go clean -cache; fi
fail=0
echo "== unchanged tree"
bin/dcpverif -prop all -no-evidence | grep -E "VIOLATION|obligations" | grep -E "VIOLATION|[1-9][0-9]* failing" && fail=1
echo "== seeded changes"
tools/seedmatrix.sh seeded > /tmp/selftest_seeds.txt
python3 - <<'PY' || fail=1
import json,re,glob,sys
got={}
for l in open('/tmp/selftest_seeds.txt'):
    m=re.match(r'(C\d+-\d+) own=(\w+)',l)
    if m: got[m.group(1)]=m.group(2)
bad=0
for f in sorted(glob.glob('seeded/*/meta.json')):
    m=json.load(open(f)); want=m['detection']['own_property_check']
    if got.get(m['seed_id'])!=want:
        print("  MISMATCH",m['seed_id'],"expected",want,"got",got.get(m['seed_id'])); bad+=1
print("  %d seeds, %d caught, %d mismatches"%(len(got),sum(v=='caught' for v in got.values()),bad))
sys.exit(1 if bad else 0)
PY
echo "== neutral refactorings"
tools/refactormatrix.sh refactors > /tmp/selftest_ref.txt
grep -c silent /tmp/selftest_ref.txt | sed 's/^/  silent: /'
grep -E "ALARM|PATCH-FAILED" /tmp/selftest_ref.txt && fail=1
[ $fail -eq 0 ] && echo "SELFTEST OK" || echo "SELFTEST FAILED"
exit $fail
