#!/bin/bash
# usage: tools/refactormatrix.sh <dir with */NN.diff> [workers] — runs every check on every behaviour-preserving refactoring; any VIOLATION is a false alarm
ROOT="$(realpath "${1:-/verif/refactors}")"; W="${2:-6}"
export GOFLAGS=-mod=mod GOPROXY=off GOSUMDB=off GOTOOLCHAIN=local GOWORK=off
DV=$(mktemp /tmp/dcpverif.XXXXXX); cp "${DCPVERIF_BIN:-/verif/bin/dcpverif}" "$DV"; chmod +x "$DV"
find /tmp/dcpverif-scratch -maxdepth 1 -name "lock.*" -mmin +15 -exec rm -rf {} + 2>/dev/null   # stale locks only: another matrix may be running
trap 'rm -f "$DV"' EXIT
one() {
  pf="$1"; ROOT="$2"; DV="$3"
  # a fixed set of scratch directories (one per worker slot): unchanged packages then hit the Go build cache instead
  # of filling it with one copy per run
  SLOTS=/tmp/dcpverif-scratch; mkdir -p "$SLOTS"; k=0
  while ! mkdir "$SLOTS/lock.$k" 2>/dev/null; do k=$(( (k+1) % 32 )); [ $k -eq 0 ] && sleep 0.2; done
  D="$SLOTS/w$k"; rm -rf "$D"; mkdir -p "$D"
  rsync -a --exclude .git /repo/ "$D/repo/"; case "$D" in /tmp/*) [ -f "$D/repo/go.mod" ] || { echo "scratch copy failed: $D" >&2; exit 9; };; *) echo "refusing to work outside /tmp: [$D]" >&2; exit 9;; esac
  (cd "$D/repo" && patch -p1 -s -f < "$pf") >/dev/null 2>&1 || { echo "$(echo $pf | sed "s#$ROOT/##") PATCH-FAILED"; rm -rf "$D"; rmdir "$SLOTS/lock.$k"; return; }
  out=$("$DV" -prop all -repo "$D/repo" -out /verif -no-evidence 2>&1)
  n=$(echo "$out" | grep -c " obligations, ")
  fired=$(echo "$out" | grep -oE "^VIOLATION property=C[0-9]+" | sed 's/VIOLATION property=//' | tr '\n' ' ')
  rules=$(echo "$out" | grep -E "^\s+\[(violated|undecided)\]" | sed -E 's/^\s+\[(violated|undecided)\] ([^@]+).*/\2/' | sort -u | tr '\n' ';')
  res="silent"; [ -n "$fired" ] && res="ALARM"; [ "$n" -eq 20 ] || res="CHECKER-ERROR($n)"
  echo "$(echo $pf | sed "s#$ROOT/##") $res fired=[$fired] $rules"
  rm -rf "$D"; rmdir "$SLOTS/lock.$k"
}
export -f one
ls $ROOT/*/*.diff | sort | xargs -P "$W" -I{} bash -c 'one "$@"' _ {} "$ROOT" "$DV" | sort -V
