#!/bin/bash
# usage: tools/refactormatrix.sh <dir with */NN.diff> [workers] — runs every check on every behaviour-preserving refactoring; any VIOLATION is a false alarm
ROOT="$(realpath "${1:-/verif/refactors}")"; W="${2:-6}"
export GOFLAGS=-mod=mod GOPROXY=off GOSUMDB=off GOTOOLCHAIN=local GOWORK=off
DV=$(mktemp /tmp/dcpverif.XXXXXX); cp /verif/bin/dcpverif "$DV"; chmod +x "$DV"
trap 'rm -f "$DV"' EXIT
one() {
  pf="$1"; ROOT="$2"; DV="$3"
  D=$(mktemp -d /tmp/refrun.XXXXXX)
  rsync -a --exclude .git /repo/ "$D/repo/"
  (cd "$D/repo" && patch -p1 -s -f < "$pf") >/dev/null 2>&1 || { echo "$(echo $pf | sed "s#$ROOT/##") PATCH-FAILED"; rm -rf "$D"; return; }
  out=$("$DV" -prop all -repo "$D/repo" -out /verif -no-evidence 2>&1)
  n=$(echo "$out" | grep -c " obligations, ")
  fired=$(echo "$out" | grep -oE "^VIOLATION property=C[0-9]+" | sed 's/VIOLATION property=//' | tr '\n' ' ')
  rules=$(echo "$out" | grep -E "^\s+\[(violated|undecided)\]" | sed -E 's/^\s+\[(violated|undecided)\] ([^@]+).*/\2/' | sort -u | tr '\n' ';')
  res="silent"; [ -n "$fired" ] && res="ALARM"; [ "$n" -eq 20 ] || res="CHECKER-ERROR($n)"
  echo "$(echo $pf | sed "s#$ROOT/##") $res fired=[$fired] $rules"
  rm -rf "$D"
}
export -f one
ls $ROOT/*/*.diff | sort | xargs -P "$W" -I{} bash -c 'one "$@"' _ {} "$ROOT" "$DV" | sort -V
