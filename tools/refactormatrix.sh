#!/bin/bash
# usage: tools/refactormatrix.sh <dir with */NN.diff> — runs every check on every behaviour-preserving refactoring; any VIOLATION is a false alarm
ROOT="$(realpath "${1:-/verif/refactors}")"
export GOFLAGS=-mod=mod GOPROXY=off GOSUMDB=off GOTOOLCHAIN=local GOWORK=off
for pf in $(ls $ROOT/*/*.diff | sort); do
  D=$(mktemp -d /tmp/refrun.XXXXXX)
  rsync -a --exclude .git /repo/ "$D/repo/"
  (cd "$D/repo" && patch -p1 -s -f < "$pf") >/dev/null 2>&1 || { echo "$(echo $pf | sed "s#$ROOT/##") PATCH-FAILED"; rm -rf "$D"; continue; }
  out=$(/verif/bin/dcpverif -prop all -repo "$D/repo" -out /verif -no-evidence 2>&1)
  fired=$(echo "$out" | grep -oE "^VIOLATION property=C[0-9]+" | sed 's/VIOLATION property=//' | tr '\n' ' ')
  rules=$(echo "$out" | grep -E "^\s+\[(violated|undecided)\]" | sed -E 's/^\s+\[(violated|undecided)\] ([^@]+).*/\2/' | sort -u | tr '\n' ';')
  res="silent"; [ -n "$fired" ] && res="ALARM"
  echo "$(echo $pf | sed "s#$ROOT/##") $res fired=[$fired] $rules"
  rm -rf "$D"
done
