#!/bin/bash
# usage: tools/verify_seed.sh <seed dir containing patch.diff and *_test.go demo files> <outfile>
# Confirms: (1) suite passes with the change, (2) demo fails with the change, (3) demo passes without it.
SD="$1"; OUT="$2"
export GOFLAGS=-mod=mod GOPROXY=off GOSUMDB=off GOTOOLCHAIN=local GOWORK=off
SLOTS=/tmp/dcpverif-scratch; mkdir -p "$SLOTS"; k=0
while ! mkdir "$SLOTS/vlock.$k" 2>/dev/null; do k=$(( (k+1) % 32 )); done
D="$SLOTS/v$k"; rm -rf "$D"; mkdir -p "$D"   # fixed paths: build-cache friendly
trap 'rm -rf "$D"; rmdir "$SLOTS/vlock.$k"' EXIT
case "$D" in /tmp/*) ;; *) echo "refusing to work outside /tmp: [$D]" >&2; exit 9;; esac
rsync -a --exclude .git /repo/ "$D/with/"; rsync -a --exclude .git /repo/ "$D/without/"
(cd "$D/with" && patch -p1 -s < "$SD/patch.diff") || { echo "$SD PATCH-FAILED" > "$OUT"; exit 0; }
(cd "$D/with" && go build ./... ) > "$D/build.log" 2>&1 || { echo "$SD BUILD-FAILED" > "$OUT"; exit 0; }
(cd "$D/with" && go test -vet=off -count=1 ./... ) > "$D/suite.log" 2>&1; SUITE=$?
# demo files
PKGDIR=""; TESTS=""
for f in "$SD"/*_test.go; do
  [ -f "$f" ] || continue
  p=$(grep -m1 '^package ' "$f" | awk '{print $2}' | sed 's/_test$//')
  case "$p" in dcp) d=".";; offset) d="stream/offset";; *) d="$p";; esac
  PKGDIR="$d"
  cp "$f" "$D/with/$d/"; cp "$f" "$D/without/$d/"
  t=$(grep -oE '^func (Test[A-Za-z0-9_]+)' "$f" | awk '{print $2}' | tr '\n' '|')
  TESTS="$TESTS$t"
done
TESTS="^(${TESTS%|})\$"
(cd "$D/with" && timeout 600 go test -vet=off -count=1 -run "$TESTS" "./$PKGDIR" ) > "$D/demo_with.log" 2>&1; DW=$?
(cd "$D/without" && timeout 600 go test -vet=off -count=1 -run "$TESTS" "./$PKGDIR" ) > "$D/demo_without.log" 2>&1; DWO=$?
RES="OK"
[ $SUITE -ne 0 ] && RES="SUITE-FAILS"
[ $DW -eq 0 ] && RES="$RES DEMO-PASSES-WITH-CHANGE"
[ $DWO -ne 0 ] && RES="$RES DEMO-FAILS-WITHOUT-CHANGE"
echo "$SD suite=$SUITE demo_with=$DW demo_without=$DWO pkg=$PKGDIR tests=$TESTS => $RES" > "$OUT"
tail -5 "$D/demo_with.log" | sed 's/^/   with: /' >> "$OUT"
tail -3 "$D/demo_without.log" | sed 's/^/   without: /' >> "$OUT"
