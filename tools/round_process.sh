#!/bin/bash
# usage: tools/round_process.sh <round dir, e.g. /tmp/r3> <Cxx> — confirm (verify_seed.sh) and run all checks on the
# changes a sub-agent left in <round dir>/<Cxx>/out/<n>/; results in <round dir>/verify/<Cxx>_<n>.txt and matrix_<Cxx>.txt
R="$1"; P="$2"
mkdir -p "$R/m/$P" "$R/verify"
for d in "$R/$P"/out/[0-9]*; do
  [ -f "$d/patch.diff" ] || continue
  n=$(basename "$d"); ln -sfn "$d" "$R/m/$P/$n"
  /verif/tools/verify_seed.sh "$R/m/$P/$n" "$R/verify/${P}_$n.txt" &
done
wait
head -1 -q "$R"/verify/${P}_*.txt | sed -E 's/ tests=\S+//'
mkdir -p "$R/one_$P"; ln -sfn "$R/m/$P" "$R/one_$P/$P"
/verif/tools/seedmatrix.sh "$R/one_$P" | tee "$R/matrix_$P.txt"
rm -rf "$R/one_$P"
