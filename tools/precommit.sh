#!/bin/bash
# usage: tools/precommit.sh — builds the checker, runs every quick check on the unchanged tree, verifies /repo is clean.
cd "$(dirname "$0")/.."
export GOFLAGS=-mod=mod GOPROXY=off GOSUMDB=off GOTOOLCHAIN=local GOWORK=off
./setup.sh >/dev/null || { echo "BUILD FAILED"; exit 2; }
[ -z "$(cd checker && gofmt -l .)" ] || { echo "gofmt:"; (cd checker && gofmt -l .); }
bad=$(bin/dcpverif -prop all -no-evidence 2>&1 | grep -E "VIOLATION|cannot|[1-9][0-9]* failing")
[ -n "$(git -C /repo status --short)" ] && { echo "/repo IS DIRTY"; git -C /repo status --short; exit 3; }
if [ -n "$bad" ]; then echo "$bad"; echo "PRECOMMIT FAILED"; exit 1; fi
echo "PRECOMMIT OK"
