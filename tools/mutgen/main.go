// mutgen enumerates and applies single-point source mutations (for measuring the sensitivity of the checks;
// not part of any registered check).
//
//	mutgen -file f.go -list            → one line per mutation point: idx<TAB>kind<TAB>line<TAB>func<TAB>description
//	mutgen -file f.go -apply N -out g  → writes the mutant
package main

import (
	"flag"
	"fmt"
	"go/ast"
	"go/parser"
	"go/token"
	"os"
	"strings"
)

type mut struct {
	kind, desc, fn string
	line           int
	from, to       int // byte range replaced
	repl           string
}

func main() {
	file := flag.String("file", "", "")
	list := flag.Bool("list", false, "")
	apply := flag.Int("apply", -1, "")
	out := flag.String("out", "", "")
	flag.Parse()
	src, err := os.ReadFile(*file)
	if err != nil {
		panic(err)
	}
	fset := token.NewFileSet()
	f, err := parser.ParseFile(fset, *file, src, parser.ParseComments)
	if err != nil {
		panic(err)
	}
	off := func(p token.Pos) int { return fset.Position(p).Offset }
	var muts []mut
	curFn := ""
	add := func(kind string, pos token.Pos, from, to int, repl, desc string) {
		muts = append(muts, mut{kind, desc, curFn, fset.Position(pos).Line, from, to, repl})
	}
	flip := map[token.Token][]string{
		token.LSS: {"<=", ">="}, token.LEQ: {"<", ">"}, token.GTR: {">=", "<="}, token.GEQ: {">", "<"},
		token.EQL: {"!="}, token.NEQ: {"=="}, token.LAND: {"||"}, token.LOR: {"&&"},
		token.ADD: {"-"}, token.SUB: {"+"},
	}
	var walk func(n ast.Node) bool
	walk = func(n ast.Node) bool {
		switch x := n.(type) {
		case *ast.FuncDecl:
			name := x.Name.Name
			if x.Recv != nil && len(x.Recv.List) == 1 {
				t := x.Recv.List[0].Type
				if s, ok := t.(*ast.StarExpr); ok {
					t = s.X
				}
				if id, ok := t.(*ast.Ident); ok {
					name = id.Name + "." + name
				}
			}
			curFn = name
		case *ast.BinaryExpr:
			if rs, ok := flip[x.Op]; ok {
				// skip string concatenation
				if x.Op == token.ADD {
					if bl, ok := x.X.(*ast.BasicLit); ok && bl.Kind == token.STRING {
						break
					}
					if bl, ok := x.Y.(*ast.BasicLit); ok && bl.Kind == token.STRING {
						break
					}
				}
				for _, r := range rs {
					add("binop", x.OpPos, off(x.OpPos), off(x.OpPos)+len(x.Op.String()), r, x.Op.String()+" → "+r)
				}
			}
		case *ast.UnaryExpr:
			if x.Op == token.NOT {
				add("not", x.OpPos, off(x.OpPos), off(x.OpPos)+1, "", "drop !")
			}
		case *ast.IfStmt:
			if x.Init == nil {
				add("cond", x.Cond.Pos(), off(x.Cond.Pos()), off(x.Cond.End()), "true", "if cond → true")
				add("cond", x.Cond.Pos(), off(x.Cond.Pos()), off(x.Cond.End()), "false", "if cond → false")
			}
		case *ast.Ident:
			if x.Name == "true" {
				add("bool", x.Pos(), off(x.Pos()), off(x.End()), "false", "true → false")
			} else if x.Name == "false" {
				add("bool", x.Pos(), off(x.Pos()), off(x.End()), "true", "false → true")
			}
		case *ast.BlockStmt:
			for _, st := range x.List {
				switch s := st.(type) {
				case *ast.ExprStmt:
					if _, ok := s.X.(*ast.CallExpr); ok {
						add("delcall", s.Pos(), off(s.Pos()), off(s.End()), "", "delete call "+oneLine(src[off(s.Pos()):off(s.End())]))
					}
				case *ast.AssignStmt:
					if s.Tok == token.ASSIGN || s.Tok == token.ADD_ASSIGN || s.Tok == token.SUB_ASSIGN {
						add("delassign", s.Pos(), off(s.Pos()), off(s.End()), "", "delete "+oneLine(src[off(s.Pos()):off(s.End())]))
					}
				case *ast.IncDecStmt:
					add("delassign", s.Pos(), off(s.Pos()), off(s.End()), "", "delete "+oneLine(src[off(s.Pos()):off(s.End())]))
				case *ast.DeferStmt:
					add("deldefer", s.Pos(), off(s.Pos()), off(s.End()), "", "delete "+oneLine(src[off(s.Pos()):off(s.End())]))
				case *ast.GoStmt:
					// run synchronously / not at all are both too disruptive; skip
				case *ast.ReturnStmt:
					if len(s.Results) > 0 {
						last := s.Results[len(s.Results)-1]
						if id, ok := last.(*ast.Ident); ok && (id.Name == "err" || strings.HasSuffix(id.Name, "Err")) {
							add("reterr", id.Pos(), off(id.Pos()), off(id.End()), "nil", "return … "+id.Name+" → nil")
						}
					}
				}
			}
		case *ast.CallExpr:
			// swap two adjacent arguments of the same printed kind is not decidable syntactically; skip
		}
		return true
	}
	for _, d := range f.Decls {
		if fd, ok := d.(*ast.FuncDecl); ok {
			curFn = ""
			ast.Inspect(fd, walk)
		}
	}
	if *list {
		for i, m := range muts {
			fmt.Printf("%d\t%s\t%d\t%s\t%s\n", i, m.kind, m.line, m.fn, m.desc)
		}
		return
	}
	if *apply >= 0 && *apply < len(muts) {
		m := muts[*apply]
		res := string(src[:m.from]) + m.repl + string(src[m.to:])
		if err := os.WriteFile(*out, []byte(res), 0o644); err != nil {
			panic(err)
		}
		return
	}
	fmt.Fprintln(os.Stderr, "nothing to do")
	os.Exit(2)
}

func oneLine(b []byte) string {
	s := strings.Join(strings.Fields(string(b)), " ")
	if len(s) > 70 {
		s = s[:70] + "…"
	}
	return s
}
