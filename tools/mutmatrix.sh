#!/bin/bash
# usage: tools/mutmatrix.sh <out.tsv> [workers] [file …]
# Sensitivity measurement (not a registered check): every single-point mutant (bin/mutgen) of the library's non-test
# sources is built, checked with all 20 rule sets, and run against the pinned test suite, on scratch copies of /repo.
# MUT_NOTESTS=1 skips the test-suite run (column tests = -).
# Columns: file idx kind line func desc | build(ok/fail) | tests(pass/fail/-) | checks fired | rules fired
OUT="$(realpath -m "$1")"; W="${2:-6}"; shift 2 2>/dev/null
export GOFLAGS=-mod=mod GOPROXY=off GOSUMDB=off GOTOOLCHAIN=local GOWORK=off
FILES="$@"
if [ -z "$FILES" ]; then
  FILES=$(cd /repo && git ls-files '*.go' | grep -v _test.go | grep -v "^example/\|^test/")
fi
TMP=$(mktemp -d /tmp/mutrun.XXXXXX)
trap 'rm -rf "$TMP"' EXIT
cp /verif/bin/dcpverif "$TMP/dcpverif"   # a private copy: the checker may be rebuilt while this runs
: > "$TMP/jobs"
for f in $FILES; do
  /verif/bin/mutgen -file /repo/$f -list | while IFS=$'\t' read -r idx kind line fn desc; do
    printf '%s\t%s\t%s\t%s\t%s\t%s\n' "$f" "$idx" "$kind" "$line" "$fn" "$desc" >> "$TMP/jobs"
  done
done
echo "$(wc -l < "$TMP/jobs") mutants, $W workers" >&2
worker() {
  k=$1
  D="/tmp/dcpverif-scratch/m$k"; rm -rf "$D"; mkdir -p "$D"; rsync -a --exclude .git /repo/ "$D/repo/"; case "$D" in /tmp/*) [ -f "$D/repo/go.mod" ] || { echo "scratch copy failed: $D" >&2; exit 9; };; *) echo "refusing to work outside /tmp: [$D]" >&2; exit 9;; esac   # fixed paths: build-cache friendly
  n=0
  while IFS=$'\t' read -r f idx kind line fn desc; do
    n=$((n+1)); [ $((n % W)) -eq $k ] || continue
    /verif/bin/mutgen -file /repo/$f -apply $idx -out "$D/repo/$f"
    b=ok; t=-; fired=; rules=
    if (cd "$D/repo" && go build ./... >/dev/null 2>&1 && go vet -vettool=/bin/true ./... >/dev/null 2>&1 || go build ./... >/dev/null 2>&1); then
      out=$("$TMP/dcpverif" -prop all -repo "$D/repo" -out /verif -no-evidence 2>&1)
      [ "$(echo "$out" | grep -c " obligations, ")" -eq 20 ] || b=checker-error
      fired=$(echo "$out" | grep -oE "^VIOLATION property=C[0-9]+" | sed 's/VIOLATION property=//' | tr '\n' ' ')
      rules=$(echo "$out" | grep -E "^\s+\[(violated|undecided)\]" | sed -E 's/^\s+\[(violated|undecided)\] ([^|]+)\|.*/\2/' | sort -u | tr '\n' ' ')
      if [ -n "${MUT_NOTESTS:-}" ]; then t=-; elif (cd "$D/repo" && timeout 300 go test -vet=off -count=1 ./... >/dev/null 2>&1); then t=pass; else t=fail; fi
    else
      b=fail
    fi
    printf '%s\t%s\t%s\t%s\t%s\t%s\t%s\t%s\t%s\t%s\n' "$f" "$idx" "$kind" "$line" "$fn" "$desc" "$b" "$t" "$fired" "$rules" >> "$OUT.part$k"
    cp /repo/$f "$D/repo/$f"
  done < "$TMP/jobs"
}
rm -f "$OUT".part*
for k in $(seq 0 $((W-1))); do worker $k & done
wait
rm -rf /tmp/dcpverif-scratch/m[0-9]*
cat "$OUT".part* | sort -t$'\t' -k1,1 -k2,2n > "$OUT"; rm -f "$OUT".part*
echo "done: $(wc -l < "$OUT") results in $OUT" >&2
