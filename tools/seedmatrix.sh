#!/bin/bash
# usage: tools/seedmatrix.sh <seeds root> [workers] — runs every property's check on every seed; prints which checks fire
ROOT="$(realpath "${1:-/verif/seeded}")"; W="${2:-6}"
export GOFLAGS=-mod=mod GOPROXY=off GOSUMDB=off GOTOOLCHAIN=local GOWORK=off
DV=$(mktemp /tmp/dcpverif.XXXXXX); cp "${DCPVERIF_BIN:-/verif/bin/dcpverif}" "$DV"; chmod +x "$DV"   # private copy: the checker may be rebuilt meanwhile
find /tmp/dcpverif-scratch -maxdepth 1 -name "lock.*" -mmin +15 -exec rm -rf {} + 2>/dev/null   # stale locks only: another matrix may be running
trap 'rm -f "$DV"' EXIT
one() {
  sd="$1"; ROOT="$2"; DV="$3"
  # a fixed set of scratch directories (one per worker slot): unchanged packages then hit the Go build cache instead
  # of filling it with one copy per run
  SLOTS=/tmp/dcpverif-scratch; mkdir -p "$SLOTS"; k=0
  while ! mkdir "$SLOTS/lock.$k" 2>/dev/null; do k=$(( (k+1) % 32 )); [ $k -eq 0 ] && sleep 0.2; done
  D="$SLOTS/w$k"; rm -rf "$D"; mkdir -p "$D"
  rsync -a --exclude .git /repo/ "$D/repo/"; case "$D" in /tmp/*) [ -f "$D/repo/go.mod" ] || { echo "scratch copy failed: $D" >&2; exit 9; };; *) echo "refusing to work outside /tmp: [$D]" >&2; exit 9;; esac
  (cd "$D/repo" && patch -p1 -s < "$sd/patch.diff") || { echo "$sd PATCH-FAILED"; rm -rf "$D"; rmdir "$SLOTS/lock.$k"; return; }
  out=$("$DV" -prop all -repo "$D/repo" -out /verif -no-evidence 2>&1)
  n=$(echo "$out" | grep -c " obligations, ")
  fired=$(echo "$out" | grep -oE "^VIOLATION property=C[0-9]+" | sed 's/VIOLATION property=//' | tr '\n' ' ')
  rules=$(echo "$out" | grep -E "^\s+\[(violated|undecided)\]" | sed -E 's/^\s+\[(violated|undecided)\] ([^|]+)\|.*/\2/' | sort -u | tr '\n' ' ')
  own=$(basename $sd | sed "s/-.*//"); case "$own" in [0-9]*) own=$(basename $(dirname $sd));; esac
  hit="MISSED"; echo " $fired" | grep -q " $own " && hit="caught"
  [ "$n" -eq 20 ] || hit="CHECKER-ERROR($n)"
  echo "$(echo $sd | sed "s#$ROOT/##") own=$hit fired=[$fired] rules=[$rules]"
  rm -rf "$D"; rmdir "$SLOTS/lock.$k"
}
export -f one
ls -d $ROOT/C*-[0-9]* $ROOT/C*/[0-9]* 2>/dev/null | sort | xargs -P "$W" -I{} bash -c 'one "$@"' _ {} "$ROOT" "$DV" | sort -V
