# Per-property claims (executed by gen_manifest.py). Text: what is decided, what is not.

claim("C01", "SSA provenance + who-may-write/who-may-call rules over the resolved program",
      "Decides, for all inputs and schedules because it is a property of every path of the code, the provenance chain behind C01: the per-vBucket position "
      "map has a single guarded writer that stores its own parameters; every call of that writer is an Ack closure (only use: ListenerContext.Ack), a "
      "metadata-key absorption or a non-document-event absorption; the library never invokes Ack/Commit itself; each observer handler stamps the event's own "
      "seqNo; Checkpoint.Save dumps Checkpoint.SeqNo from the tracked offset under the tracked key; backends write the document they are given under its "
      "vBucket's id; offsets are never mutated after construction. Per-document provenance makes the crash-point quantifier vacuous. NOT decided: consumer "
      "discipline in calling Ack, server-side handling of the write, durability.", "DESIGN.md §3 C01")

claim("C02", "SSA mapping tables (writer/reader composition), guard sets by dominance, order-abstraction evaluation",
      "Decides the tables behind 'resume exactly where the checkpoint says': the stream request's arguments keyed by gocbcore's parameter names; the Save "
      "(offset->document) and Load (document->offset) tables extracted from the code and composed to the identity on vbUUID/seqNo/snapshot start/end; every "
      "tracked entry dumped; loaded documents never modified in place; same document type, distinct JSON tags, same xattr path and id expressions on both sides; "
      "file backend reads the file/map type it writes; the 'latest' branch selected by exactly !exist && AutoReset==latest and filled from the vBucket high "
      "seqNo and failover entry 0; requested end = InitializeLatestSeqNo (parameter iff finite else 2^64-1, exhaustive); read-only wrapper performs no call in "
      "Save/Clear and is installed under exactly Metadata.ReadOnly. NOT decided: sonic's/server's 64-bit fidelity (trusted), custom Metadata implementations.",
      "DESIGN.md §3 C02")

claim("C04", "exhaustive finite order-abstraction evaluation of guards over SSA + who-may-write",
      "Decides guard exactness for ALL integer inputs by evaluating the position writer and VbIDRange.In once per weak ordering of the compared values x boolean "
      "atoms (comparison-only control is enforced, so the case split is exhaustive): Store <=> inRange && (!found || new >= cur), TrackOffset(vbID, offset) "
      "immediately after every Store and never otherwise, no effect when out of range; In <=> Start <= vbID <= End; Open derives the range from the first/last "
      "assigned vBucket; every map operation of the writer is keyed by its vbID parameter; no other writer exists. NOT decided: concurrent acknowledgements of the "
      "same vBucket (excluded by the property), memory-model visibility of plain flags.", "DESIGN.md §3 C04")

claim("C05", "order-abstraction evaluation of the dirty protocol, dominance/path rules, error-flow taint, narrow lockset",
      "Decides the dirty-tracking protocol: every dirtying settle raises the save flag; the dirty mark is written iff the position moved with dirty=true and is "
      "idempotently true (StoreIf condition closure evaluated exhaustively); Save attempts the write iff the flag is up and under no other condition, with a full "
      "copy of the dirty set; the dirty set is cleared only under err==nil of that write; every backend propagates each storage primitive's error, writes iff "
      "dirty[vbID] under the Checkpoint.Timeout context; Stream.Save precedes Stream.Close in the shutdown path when checkpointing is automatic; the write is "
      "serialised by a blocking Lock + deferred Unlock; mark and clear share a mutex (violated today: known finding K1, listed in KNOWN_FINDINGS.txt by "
      "obligation key). Two genuine defects found by R1/R5 were repaired in /repo (fix: commits). NOT decided: that a save is eventually scheduled, server "
      "behaviour under timeout.", "DESIGN.md §3 C05, §4")

claim("C03", "call-chain shape rules + exhaustive order-abstraction evaluation of handlers, deliver function, gate and forwarder; SSA tables; type-set agreement",
      "Decides the structural conditions of complete/ordered/duplicate-free/faithful delivery given gocbcore's per-connection dispatch: one synchronous chain "
      "(no go/channel/select/timer) from each document handler to ConsumeEvent; each document handler delivers (and counts) exactly once iff canForward && "
      "!beforeSkipWindow && inSnapshot and branches on nothing else (any other predicate = undocumented filter); deliver->listener once with the received event "
      "iff !closed; listener arm->forwarder once; forwarder->ConsumeEvent(payload) once iff !IsMetadata; skip-window predicate is strict SkipUntil.After; "
      "collection name = configured entry | _default; wrappers embed the handler's own event copy with SeqNo/CollectionName/EventTime=Unix(Cas/1e9) from it; no "
      "gocbcore event field is ever written; emitted types = listener arms + {SnapshotMarker, OSOSnapshot}. NOT decided: what gocbcore/the server deliver.",
      "DESIGN.md §3 C03")

claim("C06", "dominance rules on SSA + exhaustive order-abstraction evaluation of the membership check + module-wide immutability scan",
      "Decides that each offset is one untorn resume point: delivery dominated by IsInSnapshotMarker(x)=true for the x that becomes Offset.SeqNo, snapshot and "
      "vbUUID read from the observer inside that region; the check returns true iff snapshot!=nil && Start<=seq<=End and panics otherwise (never false) for all "
      "inputs; snapshot markers/offsets are replaced, never mutated (module-wide store scan; every currentSnapshot assignment is a fresh literal from the event); "
      "the branch id is written only by SetVbUUID under err==nil of an open-stream callback with failOverLogs[0].VbUUID; the document is built field by field "
      "from one offset. NOT decided: well-formedness of the server's markers.", "DESIGN.md §3 C06")

claim("C07", "exhaustive order-abstraction evaluation (gate, threshold, minimum over 0..4 copies, IsOutdated) + dominance rules on the observe callback",
      "Decides the rollback-mitigation gate: every handler except End/OSOSnapshot calls canForward(own seqNo) before any other effect; canForward waits iff "
      "mitigation is enabled and the wait loop exits only on checkPersistSeqNo=true; checkPersistSeqNo <=> seq<=persist || closed; SetPersistSeqNo leaves "
      "max(old,new) ignoring 0 and is the only writer; getMinSeqNo = 0 if all copies absent, 0 on vbUUID disagreement, else the min of present copies - "
      "exhaustively for 0..4 copies (18 577 abstract states; 5 in thorough); observe-callback state changes and dispatch dominated by !closed && same "
      "generation && err==nil; IsOutdated exact; dispatch routed to observers[vbID]; close releases without delivering. NOT decided: polling latency, "
      "OBSERVE_SEQNO itself.", "DESIGN.md §3 C07")

claim("C08", "SSA argument tables + exhaustive order-abstraction evaluation of the failover scan (0..4 entries) and of the catch-up state machine",
      "Decides how a rollback is honoured: OpenStream returns the rollback path's result under the DCPRollbackError test with failed<-offset.SeqNo, "
      "rollback<-err.SeqNo, same end/vbID/observer/options; second request start=snapStart=snapEnd<-R, end<-latest; branch = vbUUID of the lowest-index "
      "failover entry with SeqNo<=R (0 if none) for every ordering of 0..4 entries and R; SetVbUUID(failOverLogs[0].VbUUID)/SetCatchup(failed) under err==nil "
      "only; catch-up filter skip <=> need && seq<=F, need' = need && seq<F, never consulted for control events. NOT decided: the server's R and log content.",
      "DESIGN.md §3 C08")
