# Per-property claims (executed by gen_manifest.py). Text: what is decided, what is not.

claim("C01", "SSA provenance + who-may-write/who-may-call rules over the resolved program",
      "Decides, for all inputs and schedules because it is a property of every path of the code, the provenance chain behind C01: the per-vBucket position "
      "map has a single guarded writer that stores its own parameters; every call of that writer is an Ack closure (only use: ListenerContext.Ack), a "
      "metadata-key absorption or a non-document-event absorption; the library never invokes Ack/Commit itself; each observer handler stamps the event's own "
      "seqNo; Checkpoint.Save dumps Checkpoint.SeqNo from the tracked offset under the tracked key; backends write the document they are given under its "
      "vBucket's id; offsets are never mutated after construction. Per-document provenance makes the crash-point quantifier vacuous. NOT decided: consumer "
      "discipline in calling Ack, server-side handling of the write, durability.", "DESIGN.md §3 C01")
