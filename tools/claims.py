# Per-property claims (executed by gen_manifest.py). Text: what is decided, what is not.

claim("C01", "SSA provenance + who-may-write/who-may-call rules over the resolved program",
      "Decides, for all inputs and schedules because it is a property of every path of the code, the provenance chain behind C01: the per-vBucket position "
      "map has a single guarded writer that stores its own parameters; every call of that writer is an Ack closure (only use: ListenerContext.Ack), a "
      "metadata-key absorption or a non-document-event absorption; the library never invokes Ack/Commit itself; each observer handler stamps the event's own "
      "seqNo; Checkpoint.Save dumps Checkpoint.SeqNo from the tracked offset under the tracked key; backends write the document they are given under its "
      "vBucket's id; offsets are never mutated after construction. Per-document provenance makes the crash-point quantifier vacuous. NOT decided: consumer "
      "discipline in calling Ack, server-side handling of the write, durability. ALSO DECIDED (added after the second round of seeded changes): a missing checkpoint is concluded only from evidence (file: exactly os.ErrNotExist, Couchbase: after read and parse).", "DESIGN.md §3 C01")

claim("C02", "SSA mapping tables (writer/reader composition), guard sets by dominance, order-abstraction evaluation",
      "Decides the tables behind 'resume exactly where the checkpoint says': the stream request's arguments keyed by gocbcore's parameter names; the Save "
      "(offset->document) and Load (document->offset) tables extracted from the code and composed to the identity on vbUUID/seqNo/snapshot start/end; every "
      "tracked entry dumped; loaded documents never modified in place; same document type, distinct JSON tags, same xattr path and id expressions on both sides; "
      "file backend reads the file/map type it writes; the 'latest' branch selected by exactly !exist && AutoReset==latest and filled from the vBucket high "
      "seqNo and failover entry 0; requested end = InitializeLatestSeqNo (parameter iff finite else 2^64-1, exhaustive); read-only wrapper performs no call in "
      "Save/Clear and is installed under exactly Metadata.ReadOnly. NOT decided: sonic's/server's 64-bit fidelity (trusted), custom Metadata implementations. ALSO DECIDED (added after the second round of seeded changes): 'no checkpoint' is concluded only from evidence (file backend: exactly os.ErrNotExist, other read errors returned; Couchbase backend: exist only after read and parse); the re-request after a rollback keeps the requested end.",
      "DESIGN.md §3 C02")

claim("C04", "exhaustive finite order-abstraction evaluation of guards over SSA + who-may-write",
      "Decides guard exactness for ALL integer inputs by evaluating the position writer and VbIDRange.In once per weak ordering of the compared values x boolean "
      "atoms (comparison-only control is enforced, so the case split is exhaustive): Store <=> inRange && (!found || new >= cur), TrackOffset(vbID, offset) "
      "immediately after every Store and never otherwise, no effect when out of range; In <=> Start <= vbID <= End; Open derives the range from the first/last "
      "assigned vBucket; every map operation of the writer is keyed by its vbID parameter; no other writer exists. NOT decided: concurrent acknowledgements of the "
      "same vBucket (excluded by the property), memory-model visibility of plain flags. ALSO DECIDED (added after the second round of seeded changes): every wrapper's Offset is a fresh literal of its own event and no offset value is reused in a long-lived location; the dump writes the tracked seqNo for every tracked vBucket; no struct field other than the owner's holds a second long-lived reference to the position map.", "DESIGN.md §3 C04")

claim("C05", "order-abstraction evaluation of the dirty protocol, dominance/path rules, error-flow taint, narrow lockset",
      "Decides the dirty-tracking protocol: every dirtying settle raises the save flag; the dirty mark is written iff the position moved with dirty=true and is "
      "idempotently true (StoreIf condition closure evaluated exhaustively); Save attempts the write iff the flag is up and under no other condition, with a full "
      "copy of the dirty set; the dirty set is cleared only under err==nil of that write; every backend propagates each storage primitive's error, writes iff "
      "dirty[vbID] under the Checkpoint.Timeout context; Stream.Save precedes Stream.Close in the shutdown path when checkpointing is automatic; the write is "
      "serialised by a blocking Lock + deferred Unlock; mark and clear share a mutex (violated today: known finding K1, listed in KNOWN_FINDINGS.txt by "
      "obligation key). Two genuine defects found by R1/R5 were repaired in /repo (fix: commits). NOT decided: that a save is eventually scheduled, server "
      "behaviour under timeout.", "DESIGN.md §3 C05, §4")

claim("C03", "call-chain shape rules + exhaustive order-abstraction evaluation of handlers, deliver function, gate and forwarder; SSA tables; type-set agreement",
      "Decides the structural conditions of complete/ordered/duplicate-free/faithful delivery given gocbcore's per-connection dispatch: one synchronous chain "
      "(no go/channel/select/timer) from each document handler to ConsumeEvent; each document handler delivers (and counts) exactly once iff canForward && "
      "!beforeSkipWindow && inSnapshot and branches on nothing else (any other predicate = undocumented filter); deliver->listener once with the received event "
      "iff !closed; listener arm->forwarder once; forwarder->ConsumeEvent(payload) once iff !IsMetadata; skip-window predicate is strict SkipUntil.After; "
      "collection name = configured entry | _default; wrappers embed the handler's own event copy with SeqNo/CollectionName/EventTime=Unix(Cas/1e9) from it; no "
      "gocbcore event field is ever written; emitted types = listener arms + {SnapshotMarker, OSOSnapshot}. NOT decided: what gocbcore/the server deliver. ALSO DECIDED (added after the second round of seeded changes): the listener forwards depending on the event type only (no other predicate); IsMetadata matches exactly the two reserved prefixes; data/control classification of the gate's isControl argument per handler.",
      "DESIGN.md §3 C03")

claim("C06", "dominance rules on SSA + exhaustive order-abstraction evaluation of the membership check + module-wide immutability scan",
      "Decides that each offset is one untorn resume point: delivery dominated by IsInSnapshotMarker(x)=true for the x that becomes Offset.SeqNo, snapshot and "
      "vbUUID read from the observer inside that region; the check returns true iff snapshot!=nil && Start<=seq<=End and panics otherwise (never false) for all "
      "inputs; snapshot markers/offsets are replaced, never mutated (module-wide store scan; every currentSnapshot assignment is a fresh literal from the event); "
      "the branch id is written only by SetVbUUID under err==nil of an open-stream callback with failOverLogs[0].VbUUID; the document is built field by field "
      "from one offset. NOT decided: well-formedness of the server's markers. ALSO DECIDED (added after the second round of seeded changes): snapshot markers and seqno-advanced events pass the gate as control events (never dropped by catch-up), data events never do; the initial position of a fresh session carries failover entry 0's vbUUID.", "DESIGN.md §3 C06")

claim("C07", "exhaustive order-abstraction evaluation (gate, threshold, minimum over 0..4 copies, IsOutdated) + dominance rules on the observe callback",
      "Decides the rollback-mitigation gate: every handler except End/OSOSnapshot calls canForward(own seqNo) before any other effect; canForward waits iff "
      "mitigation is enabled and the wait loop exits only on checkPersistSeqNo=true; checkPersistSeqNo <=> seq<=persist || closed; SetPersistSeqNo leaves "
      "max(old,new) ignoring 0 and is the only writer; getMinSeqNo = 0 if all copies absent, 0 on vbUUID disagreement, else the min of present copies - "
      "exhaustively for 0..4 copies (18 577 abstract states; 5 in thorough); observe-callback state changes and dispatch dominated by !closed && same "
      "generation && err==nil; IsOutdated exact; dispatch routed to observers[vbID]; close releases without delivering. NOT decided: polling latency, "
      "OBSERVE_SEQNO itself. ALSO DECIDED (added after the second round of seeded changes): cluster-map generations compared lexicographically on (epoch, rev) and installed/reconfigured iff readable and (none yet or newer) - exhaustive; isControl=true exactly for snapshot marker and seqno-advanced.", "DESIGN.md §3 C07")

claim("C08", "SSA argument tables + exhaustive order-abstraction evaluation of the failover scan (0..4 entries) and of the catch-up state machine",
      "Decides how a rollback is honoured: OpenStream returns the rollback path's result under the DCPRollbackError test with failed<-offset.SeqNo, "
      "rollback<-err.SeqNo, same end/vbID/observer/options; second request start=snapStart=snapEnd<-R, end<-latest; branch = vbUUID of the lowest-index "
      "failover entry with SeqNo<=R (0 if none) for every ordering of 0..4 entries and R; SetVbUUID(failOverLogs[0].VbUUID)/SetCatchup(failed) under err==nil "
      "only; catch-up filter skip <=> need && seq<=F, need' = need && seq<F, never consulted for control events. NOT decided: the server's R and log content. ALSO DECIDED (added after the second round of seeded changes): both stream requests forward the server's error on every error path; control/data classification of the gate argument per handler.",
      "DESIGN.md §3 C08")

claim("C09", "SSA shape rules (induction variables, sub-slice sweep), origin tables, effect/purity summary",
      "PERIPHERY ONLY. Decides the structural half of the partition property: the vBucket list is the ascending identity sequence; every chunk ChunkSlice "
      "returns is a sub-slice of its own parameter cut in one ascending sweep (start(i+1)=end(i), start(0)=0) - hence contiguous, ascending and without gaps or "
      "overlaps between consecutive chunks; a member takes exactly ChunkSlice(all, TotalMembers)[MemberNumber-1] from one GetInfo() value and returns that slice "
      "itself (no cache/copy); ChunkSlice and Get are pure. NOT decided and not claimed: non-emptiness, exact cover of 0..N-1 and balance within one - arithmetic "
      "facts about ((n-1)/c)+1 and c-(m*c-n) that need symbolic algebra or enumeration (other technique families); a change that only alters those formulas is "
      "not detected. ALSO DECIDED (added after the second round of seeded changes): the ownership test In <=> Start<=vb<=End (exhaustive) with range = [first,last] of the chunk and the serial close loop running Start..End inclusive.", "DESIGN.md §3 C09, §5")

claim("C10", "dominance rules, reflection-contract typing, SSA formula tables, exhaustive order-abstraction evaluation of IsChanged",
      "PERIPHERY ONLY. Decides necessary structural conditions of consistent numbering: every membership publication is dominated by IsChanged(current)=true on "
      "the published value and IsChanged <=> nil || a number differs (exhaustive); one topic constant, publishers pass one *membership.Model, subscribers are "
      "func(*membership.Model); numbering formulas of the four mechanisms (self index+1/len with panic when absent; leader 1, follower at index i of the "
      "join-ordered list gets i+2, total len+1; config; ordinal+1) incl. RPC payload tables; both comparators ascending in join time; the Couchbase membership "
      "records the acted-on view only after the change decision and restarts the round on a CAS conflict. NOT decided: agreement/convergence between members, "
      "bounded admission/removal, distinctness under concurrent joins (distributed, timed). ALSO DECIDED (added after the second round of seeded changes): a member takes chunk MemberNumber-1 of TotalMembers; every Service is registered with the join time of the same identity and heart-beats repeat the join time fixed at registration; the membership compared against tracks what was announced.", "DESIGN.md §3 C10, §5")

claim("C11", "path-language rules over SSA CFG with inlining (callback bracketing, lock hand-off), dominance rules, timer idiom rule",
      "PERIPHERY ONLY. Decides necessary structural conditions of rebalance convergence: callbacks bracketed on every path of Rebalance (Close inlined) and of "
      "the reopen function (Open inlined); the debounce arm only touches the timer and Resets it only after Stop()=true, otherwise re-arms Rebalance itself; "
      "balancing<-true dominates Close(false), the stop channel is closed only under !balancing, Open returns before balancing<-false; after Lock every path arms "
      "exactly one AfterFunc(reopen) which defers Unlock first; Open always asks Get and Load afresh; delay const 0 iff dynamic; a repeated membership is not "
      "announced (IsChanged exact); the bus listener forwards every notification. NOT decided: 'closed once/reopened exactly once per burst on the latest "
      "membership' and timing relative to the delay. ALSO DECIDED (added after the second round of seeded changes): the close covers every assigned vBucket; the discovery recomputes the range from the membership in effect (no cache); the compared membership tracks what was announced.", "DESIGN.md §3 C11, §5")

claim("C12", "exhaustive order-abstraction evaluation of the end listener / reopen loop / End handler + who-may-write rules",
      "Decides classification, counting and the stop token: the end listener evaluated over closeWithCancel x err-nil x 7 error classes x counter result x "
      "finishedWithClose starts a reopen for exactly the five transient causes (&& !closeWithCancel && err!=nil), otherwise decrements once and sends the token "
      "iff the counter hit 0 && !finishedWithClose; activeStreams written only by Swap(len) in Open and Add(-1) there; Open resets both finished flags first; "
      "openStream uses offsets[vbID]/observers[vbID] read at call time; reopenStream returns at the first success and panics after exactly five failures; End "
      "forwards iff !endClosed; every handler-built offset carries the end bound sampled at open. NOT decided: server-side completeness before the end, races "
      "between a reopen goroutine and a concurrent Close. ALSO DECIDED (added after the second round of seeded changes): End never writes the end switch (only CloseEnd does); the counter is set before any stream is opened; the end bound function itself (C02.R5).", "DESIGN.md §3 C12")

claim("C13", "path-order rules, goroutine/stop inventory over the VTA call graph, flag-before-go rule, nil-guard rule on the closed-state field",
      "Decides structural conditions of clean shutdown: teardown order in the close path (HealthCheck.Stop < Client.Close; Unsubscribe < Stream.Close < DcpClose "
      "< Client.Close; final save before close under a blocking lock); in Stream.Close delivery switch < closeAllStreams < end switch < observers=nil with "
      "schedule and mitigation stopped; each of the 9 background loops exits on a flag/channel/context/listener that the close path reaches; running flags are "
      "raised before `go` (defect F3 repaired in /repo); the listener is called iff !closed after the gate; every lifecycle use of observers is nil-guarded - "
      "violated in Stream.Close itself (known finding K2, listed by obligation key). NOT decided: bounded return time; no event after Close returned (gocbcore). ALSO DECIDED (added after the second round of seeded changes): closeAllStreams covers Start..End inclusive / every tracked position; health-check waits are cancellable; a cancel signal raises closeWithCancel before the close path and Stream.Close receives it.",
      "DESIGN.md §3 C13, §4")

claim("C14", "who-may-call + constant-prefix provenance of every written key, exhaustive evaluation of the filter and of the forwarder's metadata branch, reflection contract",
      "Decides that the library cannot feed on its own writes: gocbcore mutators are called only by the document helpers with Key <- their id parameter, and at "
      "every call of a mutating helper the id's leftmost constant is helpers.Prefix (directly, via getCheckpointID, or via a field every writer of which assigns "
      "such a value); IsMetadata <=> valid && (HasPrefix(key, Prefix) || HasPrefix(key, TxnPrefix)) with the writers' constants, looked up under a field name that "
      "is a promoted exported []byte field of the three document wrappers; the forwarder consults IsMetadata(payload) and on that branch calls the position "
      "writer once with dirty=false, leaves the save flag alone and never calls the consumer; getCheckpointID = Prefix+group+const+Itoa(vbID) and panics for "
      "every group name containing '.'. NOT decided: injectivity of the key as a string function; the closed-loop history argument. ALSO DECIDED (added after the second round of seeded changes): absorbed events still advance the position under the writer's exact store condition; TxnPrefix is the protocol's common prefix '_txn:'.", "DESIGN.md §3 C14")

claim("C15", "exhaustive order-abstraction evaluation of the checkpoint-ahead guard, error-flow taint to panic/return with dominance of the continuation, closed-switch rules",
      "Decides the fail-fast guards of start-up: panic <=> stored seqNo > the same vBucket's sampled high seqNo, offset stored exactly otherwise; the errors of "
      "Metadata.Load, GetVBucketSeqNos, GetFailOverLogs, the xattr read (other than key-not-found) and GetCollectionIDs reach a panic/return and the continuation "
      "is dominated by err==nil; each opener spawned by openAllStreams panics on error itself (or records it under err!=nil only), Done after success, "
      "Add(len)/Wait; the metadata, membership and leader-election selections panic on no match; the sequence-number query forwards a failed node's error on "
      "every error path (defect F4 repaired); bounded reopen then panic. NOT decided: process-level observation of the panic. ALSO DECIDED (added after the second round of seeded changes): defaults never rewrite a configured type (zero-guarded stores only); openStream returns an error whenever the vBucket has no position.", "DESIGN.md §3 C15")

claim("C16", "SSA descriptor/value/label tables, dominance rule on the unsigned subtraction, exhaustive evaluation of the counters, nil-guard rule",
      "Decides that the exposed numbers are wired to what they claim: every MustNewConstMetric pairs its descriptor field with the origin the property names and "
      "the ranged vBucket label; the discovery metric struct is filled from one GetInfo() value and the selected chunk's first/last element; the unsigned lag "
      "hi-lo is dominated by hi>lo on the same operands, 0 otherwise, total lag is the running sum emitted after the loop; each document handler increments "
      "exactly its own counter once per delivered event and Add* adds 1 to its own field; every send and observers use in Collect is dominated by "
      "GetObservers()!=nil and the offsets endpoint tests IsOpen; the active-stream count is decremented by final ends only. NOT decided: atomicity of a scrape. ALSO DECIDED (added after the second round of seeded changes): the discovery metric accessor is a plain accessor; the stream's metric struct is assigned once and the rebalance count only incremented.",
      "DESIGN.md §3 C16")

claim("C17", "control-dependence rules on every defaulting store, override tables keyed by yaml tags, constant-multiplier table of the unit switch",
      "Decides the structure of configuration defaulting: each of the 27+ defaulting stores is control-dependent on the zero-test of the very field it writes, on "
      "nothing else, and stores a non-zero value (explicit values preserved, idempotent); the two environment overrides are the only other stores, and their behaviour "
      "is decided by exhaustive abstract evaluation of the defaulting step (2400 states): variable set => field = Atoi(variable) or the process stops when it is not an integer; unset => configured value kept, else non-zero default; in the three derived-settings getters every Config[K] lookup assigns exactly the field whose "
      "yaml tag is K from that lookup, no field is recomputed after overrides, inherited fields copy the like-named main-connection field; the unit switch "
      "returns int(parsedFloat x 1024^k) with the conversion after the multiplication, numeric part = all but the last two bytes trimmed with comma->point. "
      "the ${VAR} substitution replaces every occurrence of exactly '${'+name+'}' by LookupEnv(name) only when set, over all matches, and the substituted text is what is parsed. NOT decided: the documented default values themselves, float truncation, regex matching semantics.", "DESIGN.md §3 C17")

claim("C18", "exhaustive order-abstraction evaluation (81 relation vectors) of the comparison methods and of the gates; parser tables with existence conditions",
      "Decides for ALL integer field values that Higher is the lexicographic >, Equal the component-wise =, Lower the lexicographic < on (Major, Minor, Patch, "
      "Build) - exactly one holds, antisymmetric and transitive by construction; useExpiryOpcode <=> Higher||Equal(6.5.0.0), useChangeStreams <=> IsMagma && "
      "(Higher||Equal(7.2.0.0)) as handed to DcpConnect, serial close <=> Lower(5.5.0.0) alone, with the constants holding those tuples - hence monotone; the "
      "parser fills Major/Minor/Patch/Build from the denoted parts, each under exactly the length conditions that say the part exists, and returns every Atoi "
      "error except the build's. NOT decided: arbitrary malformed strings.", "DESIGN.md §3 C18")

claim("C19", "exhaustive abstract evaluation of a health-check round (all ping patterns x cancellation points), blocking-construct scan, once/join pairing rules",
      "Decides the round semantics for all 2^5 ping outcomes x every retry wait at which Stop can land: return at the first success without further pings, panic "
      "exactly on the fifth consecutive failure, no ping after a cancelled wait, no state carried between rounds (a dependence on receiver state makes it "
      "undecided = failing); the only blocking construct in run/performHealthCheck is a select with a ctx.Done() case (no sleep); Start/Stop bodies are entirely "
      "inside their Once.Do, wg.Add(1) before go run, run defers Done first, Stop cancels then waits, Once fields never reassigned. NOT decided: wall-clock "
      "promptness. ALSO DECIDED (added after the second round of seeded changes): a ping counts as failed unless both the data and the management endpoint were found (callback evaluated exhaustively).", "DESIGN.md §3 C19")

claim("C20", "typed inventory of asynchronous call sites, path-language rule on callbacks (resolve-once-before-send, capacity), error-forwarding path rule, deadline provenance through callers",
      "Decides the async-call protocol at all 19 call sites of gocbcore operations returning (PendingOp, error): the completion signal is buffered and Wait = "
      "dispatch error | select{ctx.Done->Cancel, signal} then ctx.Err() (exhaustive); every callback resolves exactly once before any send on every path, sends "
      "within the capacity of channels created in the enclosing call, and feeds every channel the wrapper awaits; the callback's error reaches the wrapper's "
      "result and is forwarded on every path on which it is non-nil; results are dereferenced only under err==nil (defects F4, F5 repaired in /repo); every "
      "operation has its own time.Now-based deadline or a context that is deadline-bearing at every call site (followed through callers and closures). NOT "
      "decided: gocbcore after Cancel, timing around the deadline. ALSO DECIDED (added after the second round of seeded changes): Ping reports success only when both services answered (exhaustive over err x endpoints); the metadata backends propagate every primitive's error.", "DESIGN.md §3 C20, §4")

# ---- third round of seeded changes: clauses added per property (appended to the level text)
def also3(pid, text):
    t, x, r = CLAIMS[pid]
    CLAIMS[pid] = (t, x + " ALSO DECIDED (added after the third round of seeded changes): " + text, r)

also3("C01", "only keys that START with a reserved prefix are absorbed without an acknowledgement (the filter rule of C14), and every event wrapper is built by the stream-observer handler of its own kind from the event it received - no synthetic seqno-advanced/system event can move the position.")
also3("C02", "openStream hands Client.OpenStream the loaded position and the observer of the same vBucket unmodified.")
also3("C03", "the observer's delivery/end switches are written only by Observer.Close/CloseEnd, which are called only from Stream.Close and its helpers (a reopened stream reuses its observer); the catch-up filter of C08 is exact; no event wrapper is built outside the handler of its kind.")
also3("C04", "a position that moved with dirty=true is marked whatever the mark's previous value and raises the save flag (the rules of C05.R1/R2), so the tracked position is what the next save writes.")
also3("C05", "a tracked position (sequence number with its snapshot range) is never changed in place after it was settled (the replace-never-mutate rule of C06).")
also3("C06", "the marker and seqno-advanced handlers install the announced snapshot iff the gate passes and under no other condition (exhaustive; a branch on any other observer state leaves the decidable fragment); the resume request carries the tracked offset unmodified; every position move uses the vBucket id and offset of one event.")
also3("C07", "a cluster-map change discards every earlier report: reconfigure = generation++, reset, mark-absent, go startObserve(new generation) on every path, and reset installs a fresh table of all-zero entries and re-arms the first-round counter unconditionally.")
also3("C08", "the position writer never lets the checkpoint fall back during the replay, whatever the branch ids (the guard rule of C04).")
also3("C09", "the parallel stream close waits for exactly the goroutines it spawns (WaitGroup sized by Count() of the ranged position map).")
also3("C10", "leader-assigned variant: the follower table is mutated only by an unconditional Store(service.Name, service) in Add and Delete in Remove; the heart-beat queues a follower for removal iff its Ping returned an error; Ping/Register/Rebalance return the retry helper's result, and helpers.Retry reports nil iff an attempt succeeded and otherwise the last attempt's error (exhaustive for 0..4 attempts x 0..5 leading failures).")
also3("C11", "because Rebalance reads the balancing state before taking its lock, every listener that reaches Stream.Rebalance is subscribed with serialised delivery (SubscribeAsync transactional=true or Subscribe); the delivery switch is tested after the rollback-mitigation wait (no event delivered while closed); the parallel close waits for every close request.")
also3("C12", "the observer that a reopen reuses has its switches thrown only by Stream.Close; the settled position a reopen resumes from is never changed in place by later markers.")
also3("C13", "the parallel close waits for exactly the close requests it spawned (WaitGroup sized by Count() of the ranged map, one Done each, Wait before return); snapshot announcements are installed whenever the gate passes, also while the delivery switch is off, so events racing with the close are dropped by the switch instead of tripping the fail-stop membership check; the dirty set is cleared only after and under err==nil of the store call.")
also3("C14", "nothing but the save flag makes a save write: the backend receives exactly the dirty marks and is called only when the flag is up, so absorbed events cannot cause a checkpoint write.")
also3("C15", "an unreadable or unparsable checkpoint is an error, never 'no checkpoint'; a transient end is answered by the bounded reopen under no further condition of the stream's state.")
also3("C16", "the open indicator the collector tests (observers) becomes non-nil only after every stream field the collector reads behind that guard has been assigned by the same lifecycle function; a tracked offset's snapshot range is never changed in place.")
also3("C17", "the placeholder regular expression (a program constant, analysed with regexp/syntax): literal '${', one capture, literal '}', the capture cannot contain '}' and admits [A-Za-z0-9_] at every position; the int-or-string resolver parses the configured string in base 10.")
also3("C19", "every wait of a round selects on the Done() of the context handed down unchanged from Start (the one Stop cancels): a derived context with its own expiry would end a failing round silently.")
also3("C20", "the duration that bounds an operation is a timeout option: no configuration field the module uses as a period (ticker, sleep, timer delay) appears as a deadline, and Ping's context is bounded by HealthCheck.Timeout.")

# ---- fourth round of seeded changes (made away from the anchored functions) and the mutation survey
def also4(pid, text):
    t, x, r = CLAIMS[pid]
    CLAIMS[pid] = (t, x + " ALSO DECIDED (fourth round / mutation survey): " + text, r)

FOUND = ("the map wrapper every rule builds on forwards faithfully (Load/Store/StoreIf/Delete/Count with its own arguments and untouched results; Range calls f once per entry and stops "
         "exactly when f returns false; UnmarshalJSON installs entries only when the whole input decoded)")
also4("C01", FOUND + "; every position move is an acknowledgement or the absorption of an event's own offset.")
also4("C02", "every tracked position is dumped and every loaded document becomes a position (Range callbacks return true on every path); one opener per assigned vBucket; dcp.metadata is assigned only the configured backend, the supplied store or the read-only wrapper; " + FOUND + ".")
also4("C03", "defaulting never rewrites a configured filter option; the flag the gate reads is the one Open switches when it does not start the mitigation component; stream.collectionIDs is assigned only by NewStream.")
also4("C04", "MUST-HAPPEN clauses: the function stored into ListenerContext.Ack moves the position exactly once on every path with dirty=true (Commit reaches Checkpoint.Save); every non-document listener arm and the reserved-key branch move it exactly once; NewStream wires consumer/client/metadata unchanged (no decorator before TrackOffset); Close unconditionally replaces the position map and dirty marks by fresh maps after the streams were closed; " + FOUND + ".")
also4("C05", "the same must-happen clauses as C04; the dump and the dirty-set copy run to completion; a primitive's error counts as reported only along edges on which it can be non-nil (err = rename(); if err != nil { err = cleanup() } loses it); dcp.metadata wiring; " + FOUND + ".")
also4("C06", "every call of the position writer is an event's own offset (no synthetic position); " + FOUND + ".")
also4("C07", "a copy is marked absent iff its own cluster-map lookup says unassigned (1..3 copies, exhaustive); dispatchPersistSeqNo forwards every report under no condition but 'the stream has that observer' and keeps no state; Open starts the mitigation iff !Disabled && !IsEphemeral() and otherwise switches the very flag the gate reads; every observe/mark loop runs to completion.")
also4("C08", "after the catch-up filter the handlers deliver under no other predicate; every spawned opener panics on error (none batched away); the threshold is never lowered by adopting a branch id.")
also4("C09", "one opener per element of the list Get returned; the bus listener reaches Stream.Rebalance on every path; the bus-fed membership implementations record every announcement first and unconditionally and GetInfo only reads.")
also4("C10", "the membership in effect is assigned only the value being announced (never seeded, never reset); Identity.Equal iff same IP and same name (exhaustive); defaulting never rewrites configured member numbers; follower/instance loops run to completion.")
also4("C11", "End forwards iff !endClosed whatever the error; bus-fed memberships record every announcement (latest wins) and GetInfo only reads; the membership in effect is assigned only what is announced.")
also4("C12", "the position a reopen resumes from never moves backwards, whatever the branch ids.")
also4("C13", "Close cannot hang on a parked event (wait left iff covered or closed); the health checker is started by a plain call of the start path, never by a timer/goroutine/function value; no channel field that a method sends on is closed; the HTTP server is shut down without a fatal deadline; the position writer accepts settled positions in every lifecycle state; close loops run to completion over a faithful map.")
also4("C14", "reserved-key events still advance the position exactly once; no wrapper is built outside the handler of its kind; the dirty set is cleared as a whole only under err==nil; defaulting never rewrites a configured group name.")
also4("C15", "the position map is assigned only from the guarded load; every end reaches the end listener while open; openStream makes one request and returns (no loop, no sleep).")
also4("C16", "must-happen clauses of C04 (gauges move with the work); NewObserver gives every observer a fresh metrics object; the stream getters behind the collector and the state endpoints only read (no lock, channel, wait); every vBucket is reported (loops run to completion); End forwards iff !endClosed.")
also4("C17", "outside package config the configuration is only read: no store into a configuration field, no update of a configuration map (frozen exception: Open disables rollback mitigation for an ephemeral bucket).")
also4("C18", "the serial-close mode is selected by streamEndNotSupportedData != nil only and that field is set only by NewStream's version test.")
also4("C19", "HealthCheck.Start is a plain synchronous call of the start path; NewHealthCheck wires the client it was given unchanged.")
also4("C20", "every single-operation wrapper issues its operation before any return that does not carry a known non-nil error (no cached answers); no component rewrites the shared configuration after defaulting.")

# ---- rules added while triaging the mutation survey (second pass)
def also5(pid, text):
    t, x, r = CLAIMS[pid]
    CLAIMS[pid] = (t, x + " ALSO DECIDED (mutation survey, second pass): " + text, r)

also5("C02", "the Couchbase backend's per-vBucket reader evaluated exhaustively (document / unparsable / key-not-found / other errors); the file backend evaluated over the outcomes of reading the file; fan-out/wait discipline of the concurrent load; the create-then-upsert ladder of the checkpoint write.")
also5("C05", "Stream.Save is Checkpoint.Save, Open starts the schedule and its loop saves under Type==auto; the checkpoint write is upsert | upsert(key not found)→create | →create(ok)→upsert with the last step's error returned.")
also5("C06", "SetVbUUID stores its parameter unconditionally.")
also5("C07", "the observe callback evaluated exhaustively (640 abstract states: closed × generation × five error classes × lookup × index range × outdated × branch id): Done once and first, stale → nothing, transient errors survived, other errors fatal, outdated ⇒ update both fields, then min, then dispatch; one completion per (vBucket, copy) in every observe round (0..3 copies); Start/Stop/startObserve/loadVbUUIDMap/loadVbUUID plumbing as path languages; Stop/reconfigure handshake exactly under observeTimer≠nil; reset evaluated for 0..2 replicas × 0..2 vBuckets (record count, non-nil records, round counter).")
also5("C11", "Rebalance evaluated exhaustively over balancing × timer armed × Stop()'s answer.")
also5("C12", "Close records its closeWithCancel argument in the flag the end listener reads before any stream is closed.")
also5("C13", "session flags (cancel flag recorded, presence switches with polarity, finish token ⇔ ¬finishedWithEndEvent, open flag raised last / lowered by Close, schedule started); fan-out/wait discipline of the parallel close and of open-all; the mitigation stop handshake.")
also5("C15", "Client.OpenStream is requested only when the position lookup succeeded; open-all and the concurrent checkpoint load wait for exactly their workers; an unreadable configuration snapshot (bucket identity) is fatal; the Couchbase reader stops start-up on any error but key-not-found.")
also5("C16", "IsOpen tells the truth (open flag protocol).")
also5("C18", "the one-by-one close loop runs in the branch where the version gate is set, the concurrent close where it is not.")
also5("C20", "no success without confirmation in the create-then-upsert ladder.")

# ---- rules added while triaging the mutation survey (third pass: the Couchbase membership mechanism, the client's wiring, the wrappers' steps)
def also6(pid, text):
    t, x, r = CLAIMS[pid]
    CLAIMS[pid] = (t, x + " ALSO DECIDED (mutation survey, third pass): " + text, r)

WIRING = ("the client's start and close paths call by call (Stream.Open and the fatal membership subscription unconditional; health check, leader election, heart-beat and monitor "
          "started and stopped under exactly their configuration switch, polarity included; Commit is Stream.Save; SetMetadata installs the supplied store and Start installs the configured backend "
          "only when none was supplied; newDcp applies the defaults before any other module call, connects / reads version and bucket / opens the DCP connection each exactly once, returns every "
          "error and builds the client on the all-success path; the leader election starts its RPC server and elector and stops both)")
also6("C02", "the sampled high sequence number is the largest any node/collection reported: GetVBucketSeqNos evaluated whole for 0..3 nodes × 1..2 collections × collection awareness × the failing step (requests ⊇ nodes × configured collection ids | one unfiltered; map ⇔ every step succeeded), the merge keeps the maximum; the backend and the requested end follow the documented values of metadata.type / dcp.mode (predicates evaluated exhaustively).")
also6("C03", "the id→name table events are labelled from is exactly {id the server resolved for a configured name → that name} (GetCollectionIDs evaluated for 0..2 names × collection support × failing resolution); the user's listener/consumer reaches the stream unwrapped (simple consumer calls it once with the event it was given; every constructor hands it on; Start gives NewStream that field and the table resolved from the configured scope and names).")
also6("C09", "GetInfo of every bus-fed membership returns the recorded numbering or waits for the first one (exhaustive).")
also6("C10", "the Couchbase mechanism itself: constructor registers then starts heart-beat and monitor loops that call their worker on every iteration; isClusterChanged is exact "
      "(0..2 instances each, exhaustive over id equalities); a monitor round records live instances at their own index, skips missing documents, stops the client on any other error, "
      "then changed → updateIndex under the read CAS → rebalance(same list) | CAS mismatch → next round; registration and instance-document ladders step by step; a round parses only what it "
      "read; GetInfo/first-announcement hand-over of every bus-fed membership (exhaustive), each listener subscribed unconditionally with a fatal failure. "
      "The leader-assigned (kubernetesHa) mechanism: one monitor round for 0..2 followers (not leader ⇒ nothing; leader ⇒ SetInfo(1,n+1) and Rebalance(i+2,n+1) to the follower at "
      "join-ordered position i through its own client, once each); one heart-beat round over every ping/reconnect/register outcome; the role callbacks and the state changers behind them; "
      "the RPC table (constant Handler.M exists with exactly the payload/reply types sent; payloads carry the caller's numbers / identity; the handler announces exactly the payload's "
      "numbers and registers a follower ⇔ the connection back succeeded); the RPC client's connect/close life cycle.")
also6("C11", "the first numbering is handed to a waiting GetInfo iff nothing was recorded before (exhaustive, every bus-fed membership).")
also6("C13", WIRING + ".")
also6("C15", "the high sequence numbers the resume guard compares with are complete and maximal (whole-function evaluation, see C02); the metadata-type switch reads the documented values; " + WIRING + ".")
also6("C16", "lag is computed against the maximal high sequence number (the merge rule of C15).")
also6("C17", "the defaults are applied first in newDcp (part of the wiring rule of C13); DOCUMENTED DEFAULTS: every row of README.md's option table with a non-zero default is compared with the value the defaulting code stores "
      "into the field the key's yaml path denotes, under that field's zero test, in a step ApplyDefaults calls unconditionally (27 options; a default realised only where the option is read is accepted when every read falls back to the documented value); "
      "an override that cannot be parsed is fatal on the edge on which the error is non-nil; the file backend's name is returned ⇔ configured and not empty.")
also6("C19", "the checker is started iff HealthCheck.Disabled is false and stopped by close under the same switch (the wiring rule of C13).")
also6("C20", "every fallible step around an operation (configuration snapshot, id resolution, dispatch, AsyncOp.Wait, errgroup Wait) has its error reported on every path on which it can be non-nil (a use under err == nil is not a report); "
      "WHOLE-WRAPPER EVALUATION: each of the 13 single-operation wrappers is evaluated with its buffered channels kept concretely over the fate of the operation (completed | refused at dispatch | completed with the server's error and nil results | never completed): "
      "nil with the server's answer ⇔ completed without error, a non-nil error otherwise, never blocked on its result channel, never a nil result dereferenced.")


# ---- fifth and sixth rounds of seeded changes
def also7(pid, text):
    t, x, r = CLAIMS[pid]
    CLAIMS[pid] = (t, x + " ALSO DECIDED (fifth/sixth seeded rounds): " + text, r)

also7("C01", "a backend is only ever handed Checkpoint.Save's dump (every invocation of Metadata.Save is that call or a forwarding wrapper); a checkpoint key is a function of group name and vBucket id of the call.")
also7("C02", "the backends store exactly what they are handed; the read-only wrapper returns the wrapped store's (documents, exists, error) untouched (exhaustive).")
also7("C03", "the user's listener is called exactly once per event (closures and deferred functions included); the id→name table is read-only once built; the library never writes into an event (no store into an event struct, no mutation through reflection); the observers map is written only on Open's path; no lossy wake-up (non-blocking send only on buffered channels).")
also7("C04", "the position gauge is the ranged offset's own SeqNo.")
also7("C05", "Commit is Stream.Save unconditionally; non-document events reach the position writer whenever the gate passes; dirty marks are raised only by the position writer.")
also7("C06", "persisted documents are what Save built (no merge with an older file, no second encoding); event wrappers are built only by the handler of their own kind.")
also7("C07", "error classes of the observe callback are discovered from its errors.Is calls (every class but the three transient ones must be fatal); the absent mark is written only by the record's setter, called only where the cluster map is consulted; the observer holding the threshold survives a re-open; no lossy wake-up.")
also7("C08", "the checkpoint written after a rollback is built from the tracked offset at save time; a replayed marker is installed whenever the gate passes and an out-of-snapshot event is fatal.")
also7("C09", "the configured member number is never rewritten by defaulting; a reopen goes through the current position map; the discovery is closed only by the client; membership publishes are synchronous; a member the live list no longer contains stops.")
also7("C10", "a role callback touches the registry only through its own steps; Reconnect dials whatever the flag says; the Couchbase numbering step evaluated whole (1..3 instances, every id-equality pattern); identity parse failures fatal; the liveness comparison's linear form (interval + tolerance + lastHeartbeat − now > 0); join times are nanosecond clock readings or copies; every membership Publish is a plain call.")
also7("C11", "one opener per element of the latest range; Load never replaces a loaded document; the read-only wrapper forwards every Load; the follower's handler announces synchronously; delivery stays inside the observer's call chain; publishes are synchronous.")
also7("C13", "Close() only signals (no WaitGroup wait, receive, lock, sleep or blocking select); leaderElection.Stop makes no call on the service discovery; the observe ticker is assigned only where the loop starts.")
also7("C14", "the listener hands every document event on under no predicate of its own, synchronously; every call of the position writer is one of the known kinds; dirty marks have one writer.")
also7("C15", "Rebalance closes with Close(false); an unresolved ${VAR} stays a literal; the read-only wrapper does not hide a failed load; the Couchbase membership refuses a non-Couchbase metadata configuration.")
also7("C16", "the descriptor field X carries the metric name X (no name twice); a reopen keeps the observer and its counters; the discovery's metric record is assigned only by the constructor.")
also7("C17", "the logging default obeys the same zero-guard rule; a store through a pointer into the configuration is not a default (set-when-unset helpers are recognised at their call sites); a size string's parse failure is an error on the failing branch; no configuration type decodes itself.")
also7("C18", "the parser's error branches are taken exactly where the Atoi failed (polarity); IsMagma/IsEphemeral read the fields decoded from storageBackend/bucketType.")
also7("C19", "whichever case other than cancellation wakes the retry wait, the failure count goes on (every select case enumerated); every background loop has a stop the close path reaches.")
also7("C20", "derived membership settings are a fresh record per call; the registration ladder reports success only after a confirmed write; the concurrent checkpoint read waits for exactly its workers; a channel workers report on has room for every worker; defaulting never rewrites a configured timeout.")


def also8(pid, text):
    t, x, r = CLAIMS[pid]
    CLAIMS[pid] = (t, x + " ALSO DECIDED (seventh seeded round): " + text, r)

also8("C01", "the catch-up filter after a rollback skips only what the store already holds.")
also8("C02", "Open does not push positions through the position writer; read-only mode survives defaulting; a session reads the checkpoints of its own group.")
also8("C04", "the range the acknowledgement guard tests is the contiguous chunk the member owns.")
also8("C05", "a successful save stores under this group's own key.")
also8("C06", "the file backend returns the decoded file under the keys it was written with and never inspects a document.")
also8("C09", "leader-assigned numbers are re-sent every round at join-ordered positions; role callbacks touch the registry only through their own steps; a dead follower leaves the group (Retry reports nil iff an attempt succeeded).")
also8("C10", "one heart-beat round evaluated over two iterations, every ping/reconnect/register outcome.")
also8("C11", "the rebalance lock is locked and unlocked only by Rebalance and the timer-driven reopen; the collector's uses of the observers map are dominated by its nil test.")
also8("C12", "one opener per assigned vBucket; a reopen never lowers the persistence threshold; the Ack closure moves the position to its own event's offset exactly once; a re-open loop whose session has passed attempts nothing and does not panic (defect F6 repaired in /repo).")
also8("C13", "the re-open retry loop has a stop the close path reaches (session counter; defect F6 repaired in /repo, the loop is no longer exempt); the serial close is selected exactly for servers below 5.5 (Lower exact).")
also8("C15", "the module never calls recover(); AsyncOp.Wait reports its own operation's outcome; the checkpoint-beyond-high-seqno guard sees every stored document.")
also8("C16", "the state endpoints store nothing into the API object or package variables; bus-fed memberships never update a kept announcement in place.")
also8("C18", "the serial close's token channel has one blocking send and one blocking receive and is touched by nothing else.")

also8("C15", "module-wide error discipline (257 error-returning call sites: each surfaced, or one of 44 confirmed and frozen exceptions).")
also8("C20", "no outcome invented by swallowing an error: the module-wide error discipline of C15.R26.")


def also9(pid, text):
    t, x, r = CLAIMS[pid]
    CLAIMS[pid] = (t, x + " ALSO DECIDED (eighth seeded round): " + text, r)

_layers = "every layer over a module interface is a pass-through (one inner call, own arguments, results untouched; frozen table of opaque-by-design methods) and every wrapper put around a collaborator is the known read-only one or a proven pass-through"
also9("C01", _layers + "; handlers hand events on synchronously; every path through the listener reaches the dispatch on the event's type.")
also9("C02", _layers + "; the configuration is only read outside package config; no in-place store to an Offset.")
also9("C03", _layers + "; every path through the listener reaches the dispatch on the event's type (path check).")
also9("C04", _layers + "; dirty marks are cleared only after a successful write; nothing saves while the stream is closed for a rebalance.")
also9("C05", _layers + ".")
also9("C06", _layers + ".")
also9("C07", "no layer between the mitigation and the dispatcher that is not a proven pass-through.")
also9("C08", "openStream reads the position at call time on every attempt; every path through the listener reaches the dispatch on the event's type.")
also9("C09", "an unresolved ${VAR} never becomes member 1; the follower's handler announces exactly what the leader sent.")
also9("C10", "the bus listener calls Stream.Rebalance on every path; every HTTP route has exactly one handler and the application-wide middlewares are the known ones.")
also9("C11", "a re-open requests exactly the loaded position; the public Close is neither called nor handed out inside the module; nothing saves while the stream is closed for a rebalance.")
also9("C12", "Rebalance closes with Close(false); the close ends the session before it closes streams and empties the position map.")
also9("C13", _layers + "; the public Close is an entry point only; the session counter is advanced before the close touches anything.")
also9("C14", "no package-level variable is written after initialisation (no process-wide key memo).")
also9("C15", _layers + "; the checkpoint-ahead guard also refuses a stored position for a vBucket the sequence-number answer does not contain.")
also9("C16", _layers + "; routes and middlewares as registered; no process-wide remembered answer.")
also9("C17", "the module never writes the process environment; the configuration reaches the defaulting function as the caller's own pointer, struct value or loaded file.")
also9("C18", "the gate constants are never written after their declaration (no init() that re-points them, no store through them).")
also9("C20", _layers + "; no integer division by a divisor not tested non-zero (completion callbacks do not panic).")


def also10(pid, text):
    t, x, r = CLAIMS[pid]
    CLAIMS[pid] = (t, x + " ALSO DECIDED (ninth seeded round): " + text, r)

also10("C02", "no package-level state shared between checkpoint documents.")
also10("C03", "a persisted-sequence report is never ignored (the threshold rule of C07.R3).")
also10("C07", "the observer's gate waits for the persistence poll only — no channel receive, lock or other wait.")
also10("C09", "the old chunk's streams are closed synchronously before the new chunk is opened; N handed to the discovery is the cluster map's vBucket count.")
also10("C11", "openStream waits for nothing but its request and reports success only after it.")
also10("C12", "every transient end gets its own request: openStream never reports success without making the request, and only where the request's own error is nil.")
also10("C13", "Observer.Close/CloseEnd only set their switch (no lock, channel operation or wait); channel closes are once by construction or confirmed.")
also10("C15", "openStream's result is the request's own outcome: no class of refusal is turned into success.")
also10("C19", "the ticker that paces the rounds is created with the configured interval and touched nowhere else; defaulting never rewrites the configured interval or timeout.")
also10("C20", "channel closes are once by construction or confirmed; the observer's gate (run on the client library's read loop) waits for the persistence poll only.")


def also11(pid, text):
    t, x, r = CLAIMS[pid]
    CLAIMS[pid] = (t, x + " ALSO DECIDED (tenth seeded round, feature interaction): " + text, r)

also11("C01", "reading the stream changes nothing (the Stream getters store to no field, update no map, call no mutator — a scrape cannot take dirty marks away); Load refuses a checkpoint ahead of the vBucket whatever the bucket type.")
also11("C03", "the catch-up filter is armed only by the completion of a rollback re-request; below 5.5.0 a stream that ends by itself does not wait for a close token.")
also11("C05", "the file backend reads the file at every Load; every event wrapper carries the event's own sequence number as its offset; the Stream getters change no state.")
also11("C07", "the observe callback hands on the node's result fields untouched, its error deciding.")
also11("C08", "Observer.SetCatchup / SetVbUUID are called only from the completion of the client's stream requests; the end listener counts down only for final ends.")
also11("C11", "AfterRebalanceStart is announced before the re-open is armed (also with a zero delay); the close stops the mitigation exactly when Open started it.")
also11("C13", "a re-open attempt in flight at Close gives up instead of failing on (the re-open loop evaluated whole).")
also11("C15", "no recovering middleware: every API route has its one handler, so a fatal failure behind a route stays fatal.")
also11("C16", "the active-stream gauge counts one opener per assigned vBucket and follows every re-open; the stream getters behind a scrape change no state.")
also11("C19", "the endpoint pickers of the Ping callback hand out an entry's address only after seeing its Error nil and its State PingStateOK.")
also11("C20", "the same endpoint-picker rule: a refused or timed-out node never counts as an answer.")


def also12(pid, text):
    t, x, r = CLAIMS[pid]
    CLAIMS[pid] = (t, x + " ALSO DECIDED (eleventh seeded round and mutation survey): " + text, r)

also12("C02", "the existence flag the Couchbase backend reports starts out false and is raised only by a reader that found and decoded a document.")
also12("C06", "the position writer never stores an offset below the tracked one, whatever the branch ids of the two.")
also12("C09", "the membership listener is subscribed unconditionally on the start path; a membership that cannot be built is refused, not replaced.")
also12("C10", "the elector callbacks evaluated whole (every lease notice reaches the handler, no memory of earlier notices); the index update is a compare-and-swap along the whole chain (monitor round → updateIndex → UpdateDocument → mutation options).")
also12("C12", "below 5.5.0 the serial close asks every assigned vBucket and lowers its closing flag on every way out; the catch-up filter swallows nothing beyond the position reached; every offset any observer method builds carries the end bound.")
also12("C14", "the position writer marks ⇔ stored ∧ dirty, whatever the checkpoint type.")
also12("C15", "a selection's refusal is reached exactly when none of its tests holds and under nothing else (the polarity of a constructor's type test is decided).")
also12("C17", "no slice or map of the configuration — or of what a config getter hands out — is passed to an in-place library mutator (sort, slices.Sort…, copy, clear, delete).")
also12("C18", "the observer forwards the end of its stream ⇔ the end switch is not thrown — the token the serial close waits for.")
also12("C13", "a background loop that runs on a flag is stopped under the configuration it was started under (every raise of the flag has a lowering under no further configuration test).")
also12("C19", "the retry bound of a round is read where it is defined — a local constant or the literal of the parameter bundle at the round's only call site.")


def also13(pid, text):
    t, x, r = CLAIMS[pid]
    CLAIMS[pid] = (t, x + " ALSO DECIDED (twelfth seeded round, rare paths and shared values): " + text, r)

also13("C03", "the functions handed to the observer constructor are method values of the stream; a re-open reads the current position at every attempt; a replayed snapshot announcement is installed whenever the gate passes.")
also13("C05", "the range the position writer tests is re-derived at every Open; every documented default is applied also when only part of a section is configured.")
also13("C07", "every cluster-map lookup of the mitigation is on the snapshot it adopted; defaulting derives the mitigation switch from nothing else.")
also13("C09", "one heart-beat round of the leader evaluated whole: a follower is removed ⇔ its ping failed in this round.")
also13("C10", "no package-level state is written after initialisation (per-client heart-beat settings); GetInfo of a bus-fed membership only reads.")
also13("C12", "every end of a vBucket stream reaches the stream's own end listener (a method value, not a once-only closure).")
also13("C13", "the operation record's signal channel is buffered (a timed-out request returns); an acknowledgement after Close meets fresh maps, never nil; the Ack closure marks the maps the next save reads.")
also13("C15", "the rebalance decision is evaluated exhaustively (a change during the delayed re-open re-arms it); errors.As targets are read only under the true result of their own errors.As.")
also13("C16", "the end listener handed to every observer is the stream's own (the active-stream gauge follows every end).")
also13("C20", "a wrapper of an asynchronous operation waits for nothing but that operation and channels it made itself (no limiter, lock or queue in front of the deadline); errors.As targets are fresh.")


def also14(pid, text):
    t, x, r = CLAIMS[pid]
    CLAIMS[pid] = (t, x + " ALSO DECIDED (thirteenth seeded round): " + text, r)

also14("C01", "dirty marks and the save flag are cleared only after a successful store call; an event outside the announced snapshot stops the client.")
also14("C02", "with auto-reset latest a fail-over log error is fatal and every position is stored once under its own key.")
also14("C06", "every observer put into the observer map is built by the observer constructor at that place (nothing of an earlier stream's observer is carried over a Close).")
also14("C12", "the session counter is advanced by the close and by nothing else; the opener of a vBucket panics on every failure of its open.")
also14("C13", "the session counter is advanced by the close only.")
also14("C15", "no return of a stream opener is reachable under err != nil: an open that failed is fatal whatever its error class.")
also14("C18", "the ownership test and the serial close loop agree with the assigned chunk (inclusive bounds on both sides).")
also14("C19", "the operation record never closes its signal channel (a late completion cannot panic); what runs in the ping completion divides by nothing that may be zero.")


def also15(pid, text):
    t, x, r = CLAIMS[pid]
    CLAIMS[pid] = (t, x + " ALSO DECIDED (fourteenth seeded round): " + text, r)


also15("C03", "the configuration is not written through a pointer it holds (skipUntil) or into an element of its slices; the library writes into no byte slice it did not make itself (event keys and values are handed on without a copy).")
also15("C07", "Close stops the mitigation itself, synchronously.")
also15("C09", "every assignment that differs from the one in effect is published, and the record of the one in effect changes only together with the publish.")
also15("C11", "once the new membership is recorded as the one in effect no path returns without announcing it.")
also15("C16", "an observer's counters are written only by their own methods; the lag is computed under the nil test of the high-seqNo query's own error.")
also15("C20", "the context an operation waits under is structurally the one WithTimeout/WithDeadline returned or a child of it — not a context another function hands back for it.")


def also16(pid, text):
    t, x, r = CLAIMS[pid]
    CLAIMS[pid] = (t, x + " ALSO DECIDED (fifteenth seeded round): " + text, r)


also16("C04", "the new range is in force before the first stream of the new assignment is requested.")
also16("C10", "no topic of the event bus has two once-only subscriptions (the listener subscribed after them would be dropped).")
also16("C18", "version fields are stored only where a version is built; nothing in the parser narrows an integer and every numeric field of the version is as wide as int.")
