#!/bin/bash
# usage: tools/mutrecheck.sh <in.tsv> <out.tsv> [workers] — re-evaluates with the current checker the mutants of a
# mutmatrix result that built and were reported by no check (the survivors); everything else is copied through.
IN="$(realpath "$1")"; OUT="$(realpath -m "$2")"; W="${3:-8}"
export GOFLAGS=-mod=mod GOPROXY=off GOSUMDB=off GOTOOLCHAIN=local GOWORK=off
TMP=$(mktemp -d /tmp/mutre.XXXXXX); trap 'rm -rf "$TMP"' EXIT
cp /verif/bin/dcpverif "$TMP/dcpverif"; cp /verif/bin/mutgen "$TMP/mutgen"
awk -F'\t' '!($7=="ok" && $9=="")' "$IN" > "$TMP/keep"
awk -F'\t' '$7=="ok" && $9==""' "$IN" > "$TMP/jobs"
echo "$(wc -l < "$TMP/jobs") survivors to re-check" >&2
one() {
  line="$1"; TMP="$2"
  IFS=$'\t' read -r f idx kind ln fn desc b t fired rules <<< "$line"
  SLOTS=/tmp/dcpverif-scratch; mkdir -p "$SLOTS"; k=0
  while ! mkdir "$SLOTS/rlock.$k" 2>/dev/null; do k=$(( (k+1) % 32 )); [ $k -eq 0 ] && sleep 0.2; done
  D="$SLOTS/r$k"; rm -rf "$D"; mkdir -p "$D"; rsync -a --exclude .git /repo/ "$D/repo/"; case "$D" in /tmp/*) [ -f "$D/repo/go.mod" ] || { echo "scratch copy failed: $D" >&2; exit 9; };; *) echo "refusing to work outside /tmp: [$D]" >&2; exit 9;; esac
  "$TMP/mutgen" -file /repo/$f -apply $idx -out "$D/repo/$f"
  out=$("$TMP/dcpverif" -prop all -repo "$D/repo" -out /verif -no-evidence 2>&1)
  [ "$(echo "$out" | grep -c " obligations, ")" -eq 20 ] || b=checker-error
  fired=$(echo "$out" | grep -oE "^VIOLATION property=C[0-9]+" | sed 's/VIOLATION property=//' | tr '\n' ' ')
  rules=$(echo "$out" | grep -E "^\s+\[(violated|undecided)\]" | sed -E 's/^\s+\[(violated|undecided)\] ([^|]+)\|.*/\2/' | sort -u | tr '\n' ' ')
  printf '%s\t%s\t%s\t%s\t%s\t%s\t%s\t%s\t%s\t%s\n' "$f" "$idx" "$kind" "$ln" "$fn" "$desc" "$b" "$t" "$fired" "$rules"
  rm -rf "$D"; rmdir "$SLOTS/rlock.$k"
}
find /tmp/dcpverif-scratch -maxdepth 1 -name "rlock.*" -mmin +15 -exec rm -rf {} + 2>/dev/null
export -f one
cat "$TMP/jobs" | tr '\n' '\0' | xargs -0 -P "$W" -I{} bash -c 'one "$@"' _ {} "$TMP" > "$TMP/re"
cat "$TMP/keep" "$TMP/re" | sort -t$'\t' -k1,1 -k2,2n > "$OUT"
echo "survivors now: $(awk -F'\t' '$7=="ok" && $9==""' "$OUT" | wc -l)" >&2
