#!/bin/sh
# usage: tools/seedtest.sh <patch.diff> <prop[,prop...]>   — applies the patch to a scratch copy of /repo and runs the checks on it
set -u
PATCH="$1"; PROPS="$2"
export GOFLAGS=-mod=mod GOPROXY=off GOSUMDB=off GOTOOLCHAIN=local GOWORK=off
SLOTS=/tmp/dcpverif-scratch; mkdir -p "$SLOTS"; k=0
while ! mkdir "$SLOTS/tlock.$k" 2>/dev/null; do k=$(( (k+1) % 32 )); done
D="$SLOTS/t$k"; rm -rf "$D"; mkdir -p "$D"   # fixed paths: build-cache friendly
trap 'rm -rf "$D"; rmdir "$SLOTS/tlock.$k"' EXIT
rsync -a --exclude .git /repo/ "$D/repo/"; case "$D" in /tmp/*) [ -f "$D/repo/go.mod" ] || { echo "scratch copy failed: $D" >&2; exit 9; };; *) echo "refusing to work outside /tmp: [$D]" >&2; exit 9;; esac
(cd "$D/repo" && git init -q . 2>/dev/null; patch -p1 -s < "$PATCH") || { echo "PATCH-FAILED $PATCH"; exit 3; }
/verif/bin/dcpverif -prop "$PROPS" -repo "$D/repo" -out /verif -no-evidence 2>&1 | grep -E "^\s+\[(violated|undecided)\]|VIOLATION|KNOWN|obligations|cannot" | sed "s#$D/repo/##g"
