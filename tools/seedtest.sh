#!/bin/sh
# usage: tools/seedtest.sh <patch.diff> <prop[,prop...]>   — applies the patch to a scratch copy of /repo and runs the checks on it
set -u
PATCH="$1"; PROPS="$2"
export GOFLAGS=-mod=mod GOPROXY=off GOSUMDB=off GOTOOLCHAIN=local GOWORK=off
D=$(mktemp -d /tmp/seedrun.XXXXXX)
trap 'rm -rf "$D"' EXIT
rsync -a --exclude .git /repo/ "$D/repo/"
(cd "$D/repo" && git init -q . 2>/dev/null; patch -p1 -s < "$PATCH") || { echo "PATCH-FAILED $PATCH"; exit 3; }
/verif/bin/dcpverif -prop "$PROPS" -repo "$D/repo" -out /verif -no-evidence 2>&1 | grep -E "^\s+\[(violated|undecided)\]|VIOLATION|KNOWN|obligations|cannot" | sed "s#$D/repo/##g"
