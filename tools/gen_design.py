#!/usr/bin/env python3
"""Regenerates DESIGN.md = tools/design_head.md + `bin/dcpverif -doc` + tools/design_tail.md with the
seed and refactor tables filled from seeded/*/meta.json and refactors/RESULTS.txt."""
import json, glob, os, subprocess
R = os.path.dirname(os.path.dirname(os.path.abspath(__file__)))
doc = subprocess.run([os.path.join(R, 'bin/dcpverif'), '-doc'], capture_output=True, text=True).stdout
rows = ["| seed | what it needs to manifest | own check | checks firing | rules firing |", "|---|---|---|---|---|"]
for f in sorted(glob.glob(os.path.join(R, 'seeded/*/meta.json'))):
    m = json.load(open(f))
    d = m["detection"]
    rows.append("| %s | %s | %s | %s | %s |" % (m["seed_id"], m["needs_to_manifest"], d["own_property_check"], " ".join(d["checks_firing"]) or "—", " ".join(d["rules_firing"]) or "—"))
seed_table = "\n".join(rows)
rp = os.path.join(R, 'refactors/RESULTS.md')
ref_table = open(rp).read() if os.path.exists(rp) else "(results pending)"
tail = open(os.path.join(R, 'tools/design_tail.md')).read().replace('{{SEED_TABLE}}', seed_table).replace('{{REFACTOR_TABLE}}', ref_table)
open(os.path.join(R, 'DESIGN.md'), 'w').write(open(os.path.join(R, 'tools/design_head.md')).read() + doc + tail)
print("DESIGN.md regenerated")
