#!/bin/bash
# usage: tools/trydiff.sh <patch> <prop|all> [checker binary] [extra flags] — applies a patch to a scratch copy of /repo
# (removed afterwards) and runs the checker on it. For debugging rules against seeds and refactorings.
P="$(realpath "$1")"; PROP="${2:-all}"; BIN="${3:-/verif/bin/dcpverif}"; shift 3 2>/dev/null
export GOFLAGS=-mod=mod GOPROXY=off GOSUMDB=off GOTOOLCHAIN=local GOWORK=off
D=/tmp/dcpverif-scratch/try.$$; rm -rf "$D"; mkdir -p "$D"
case "$D" in /tmp/*) ;; *) echo "refusing to work outside /tmp"; exit 9;; esac
trap 'rm -rf "$D"' EXIT
rsync -a --exclude .git /repo/ "$D/repo/"
(cd "$D/repo" && patch -p1 -s < "$P") || { echo "patch failed"; exit 2; }
"$BIN" -prop "$PROP" -repo "$D/repo" -out /verif -no-evidence "$@" 2>&1
