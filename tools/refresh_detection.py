#!/usr/bin/env python3
"""usage: refresh_detection.py <matrix file> [index offset]
Rewrites the detection block of /verif/seeded/<id>/meta.json from a tools/seedmatrix.sh output
(lines 'Cxx-n …' or 'Cxx/n …'; the offset is added to n for the second form)."""
import json, re, sys, os
off = int(sys.argv[2]) if len(sys.argv) > 2 else 0
n = 0
for l in open(sys.argv[1]):
    m = re.match(r'(C\d+)([-/])(\d+) own=(\w+) fired=\[(.*?)\] rules=\[(.*?)\]', l)
    if not m:
        continue
    k = int(m.group(3)) + (off if m.group(2) == '/' else 0)
    f = f'/verif/seeded/{m.group(1)}-{k}/meta.json'
    if not os.path.exists(f):
        print('no such seed', f); continue
    meta = json.load(open(f))
    d = meta.setdefault('detection', {})
    d['own_property_check'], d['checks_firing'], d['rules_firing'] = m.group(4), m.group(5).split(), m.group(6).split()
    json.dump(meta, open(f, 'w'), indent=1)
    n += 1
print('refreshed', n)
