#!/usr/bin/env python3
"""usage: import_seeds.py <src root (Cxx/n dirs)> <verify out dir> <matrix file> <needs.json> <index offset>
Copies confirmed seeds into /verif/seeded/<prop>-<n+offset>/ with meta.json."""
import os, json, shutil, re, glob, sys
src, vout, matrixf, needsf, off = sys.argv[1], sys.argv[2], sys.argv[3], sys.argv[4], int(sys.argv[5])
needs = json.load(open(needsf))
matrix = {}
for l in open(matrixf):
    m = re.match(r'(C\d+)/(\d+) own=(\w+) fired=\[(.*?)\] rules=\[(.*?)\]', l)
    if m: matrix[(m.group(1), m.group(2))] = (m.group(3), m.group(4).split(), m.group(5).split())
ver = {}
for f in glob.glob(os.path.join(vout, '*.txt')):
    l = open(f).readline()
    m = re.match(r'\S*/(C\d+)/(\d+) suite=(\d+) demo_with=(\d+) demo_without=(\d+) pkg=(\S+) tests=(\S+) => (.*)', l)
    if m: ver[(m.group(1), m.group(2))] = dict(suite_exit=int(m.group(3)), demo_with_exit=int(m.group(4)), demo_without_exit=int(m.group(5)), pkg=m.group(6), tests=m.group(7), verdict=m.group(8).strip())
n_ok = 0
for d in sorted(glob.glob(os.path.join(src, 'C*', '[0-9]*'))):
    prop, n = d.split('/')[-2], d.split('/')[-1]
    v = ver.get((prop, n))
    if not v or v['verdict'] != 'OK':
        print('SKIP (not confirmed):', prop, n, v and v['verdict']); continue
    sid = f"{prop}-{int(n)+off}"
    dst = f'/verif/seeded/{sid}'
    os.makedirs(dst, exist_ok=True)
    for f in os.listdir(d):
        if f.endswith('.log') or not os.path.isfile(os.path.join(d, f)): continue
        shutil.copy(os.path.join(d, f), os.path.join(dst, f))
    own, fired, rules = matrix.get((prop, n), ("?", [], []))
    meta = {
      "seed_id": sid, "property_broken": prop,
      "needs_to_manifest": needs.get(f"{prop}/{n}", "see README.md"),
      "origin": "written by an independent sub-agent that was given only the property record, its own scratch worktree of /repo and one-line summaries of the earlier seeds to avoid (nothing from /verif)",
      "confirmed": {"how": "tools/verify_seed.sh on scratch copies of /repo: go build ./...; go test -vet=off -count=1 ./... with the change; the demonstration test(s) with and without the change",
        "suite_with_change_exit": v["suite_exit"], "demo_with_change_exit": v["demo_with_exit"], "demo_without_change_exit": v["demo_without_exit"],
        "demo_package_dir": v["pkg"], "demo_tests": v["tests"], "verdict": v["verdict"]},
      "detection": {"own_property_check": own, "checks_firing": fired, "rules_firing": rules,
                    "how": "tools/seedmatrix.sh: patch applied to a scratch copy, bin/dcpverif -prop all -repo <copy>"},
    }
    json.dump(meta, open(os.path.join(dst, 'meta.json'), 'w'), indent=1)
    n_ok += 1
print('imported', n_ok)
