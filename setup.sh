#!/bin/sh
# builds the checker offline from the module cache (golang.org/x/tools v0.29.0)
set -eu
cd "$(dirname "$0")"
export GOFLAGS=-mod=mod GOPROXY=off GOSUMDB=off GOTOOLCHAIN=local GOWORK=off
mkdir -p bin evidence
(cd checker && go build -o ../bin/dcpverif .)
echo "built bin/dcpverif"
