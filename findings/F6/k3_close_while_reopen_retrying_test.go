package dcp

// Demo for C13 / r7 / change 3.
//
// One vBucket stream is ended by the server with "socket closed" (a node
// hiccup).  The library re-opens such a stream by itself.  A moment later
// (300 ms at most) the application is shut down with Close() and keeps
// running for a few seconds to flush its own sinks before it exits.
// Close() must return, every stream must be closed and the process must exit
// cleanly.
//
// A crash of a library goroutine cannot be recovered from inside the test, so
// the scenario runs in a child process (the test binary itself) and the parent
// checks the child's exit status.

import (
	"errors"
	"os"
	"os/exec"
	"reflect"
	"strings"
	"sync"
	"testing"
	"time"
	"unsafe"

	"github.com/asaskevich/EventBus"
	"github.com/couchbase/gocbcore/v10"
	"github.com/prometheus/client_golang/prometheus"

	"github.com/Trendyol/go-dcp/config"
	"github.com/Trendyol/go-dcp/couchbase"
	"github.com/Trendyol/go-dcp/logger"
	"github.com/Trendyol/go-dcp/models"
	"github.com/Trendyol/go-dcp/wrapper"
)

const c13r7cChildEnv = "C13R7_REOPEN_THEN_CLOSE_CHILD"

type c13r7cClient struct {
	observers map[uint16]couchbase.Observer
	open      map[uint16]bool
	openCount map[uint16]int
	closeLog  []uint16
	nVb       int
	mu        sync.Mutex
	dcpClosed bool
	closed    bool
}

func c13r7cSnapshot() *gocbcore.ConfigSnapshot {
	s := &gocbcore.ConfigSnapshot{}
	f := reflect.ValueOf(s).Elem().FieldByName("state")
	reflect.NewAt(f.Type(), unsafe.Pointer(f.UnsafeAddr())).Elem().Set(reflect.New(f.Type().Elem()))
	return s
}

func (c *c13r7cClient) Ping() (*models.PingResult, error)    { return &models.PingResult{}, nil }
func (c *c13r7cClient) GetAgent() *gocbcore.Agent            { return nil }
func (c *c13r7cClient) GetMetaAgent() *gocbcore.Agent        { return nil }
func (c *c13r7cClient) Connect() error                       { return nil }
func (c *c13r7cClient) DcpConnect(bool, bool) error          { return nil }
func (c *c13r7cClient) GetNumVBuckets() int                  { return c.nVb }
func (c *c13r7cClient) GetAgentQueues() []*models.AgentQueue { return nil }

func (c *c13r7cClient) Close() {
	c.mu.Lock()
	c.closed = true
	c.mu.Unlock()
}

func (c *c13r7cClient) DcpClose() {
	c.mu.Lock()
	c.dcpClosed = true
	c.mu.Unlock()
}

func (c *c13r7cClient) GetAgentConfigSnapshot() (*gocbcore.ConfigSnapshot, error) {
	return c13r7cSnapshot(), nil
}

func (c *c13r7cClient) GetDcpAgentConfigSnapshot() (*gocbcore.ConfigSnapshot, error) {
	return c13r7cSnapshot(), nil
}

func (c *c13r7cClient) GetVBucketSeqNos(bool) (*wrapper.ConcurrentSwissMap[uint16, uint64], error) {
	m := wrapper.CreateConcurrentSwissMap[uint16, uint64](16)
	for i := 0; i < c.nVb; i++ {
		m.Store(uint16(i), 1000)
	}
	return m, nil
}

func (c *c13r7cClient) GetFailOverLogs(uint16) ([]gocbcore.FailoverEntry, error) {
	return []gocbcore.FailoverEntry{{VbUUID: 1, SeqNo: 0}}, nil
}

func (c *c13r7cClient) GetCollectionIDs(string, []string) (map[uint32]string, error) {
	return map[uint32]string{}, nil
}

func (c *c13r7cClient) OpenStream(vbID uint16, _ map[uint32]string, _ *models.Offset, o couchbase.Observer) error {
	c.mu.Lock()
	if c.openCount[vbID] >= 1 {
		// the node that served this vBucket is still down when the library re-opens the stream
		c.openCount[vbID]++
		c.mu.Unlock()
		return errors.New("node is down")
	}
	c.observers[vbID] = o
	c.open[vbID] = true
	c.openCount[vbID]++
	c.mu.Unlock()
	o.SetVbUUID(1)
	return nil
}

func (c *c13r7cClient) CloseStream(vbID uint16) error {
	c.mu.Lock()
	c.closeLog = append(c.closeLog, vbID)
	o := c.observers[vbID]
	wasOpen := c.open[vbID]
	c.open[vbID] = false
	c.mu.Unlock()

	if !wasOpen {
		return errors.New("stream not found")
	}

	o.End(models.DcpStreamEnd{VbID: vbID}, gocbcore.ErrDCPStreamClosed)
	return nil
}

func (c *c13r7cClient) observer(vbID uint16) couchbase.Observer {
	c.mu.Lock()
	defer c.mu.Unlock()
	return c.observers[vbID]
}

func (c *c13r7cClient) opened(vbID uint16) int {
	c.mu.Lock()
	defer c.mu.Unlock()
	return c.openCount[vbID]
}

// socketClosed simulates the server side dropping the stream of one vBucket.
func (c *c13r7cClient) socketClosed(vbID uint16) {
	c.mu.Lock()
	o := c.observers[vbID]
	c.open[vbID] = false
	c.mu.Unlock()
	o.End(models.DcpStreamEnd{VbID: vbID}, gocbcore.ErrSocketClosed)
}

type c13r7cMeta struct {
	saves []map[uint16]uint64
	mu    sync.Mutex
}

func (m *c13r7cMeta) Save(state map[uint16]*models.CheckpointDocument, _ map[uint16]bool, _ string) error {
	m.mu.Lock()
	defer m.mu.Unlock()
	s := map[uint16]uint64{}
	for k, v := range state {
		s[k] = v.Checkpoint.SeqNo
	}
	m.saves = append(m.saves, s)
	return nil
}

func (m *c13r7cMeta) Load(
	vbIds []uint16, bucketUUID string,
) (*wrapper.ConcurrentSwissMap[uint16, *models.CheckpointDocument], bool, error) {
	st := wrapper.CreateConcurrentSwissMap[uint16, *models.CheckpointDocument](16)
	for _, v := range vbIds {
		st.Store(v, models.NewEmptyCheckpointDocument(bucketUUID))
	}
	return st, true, nil
}

func (m *c13r7cMeta) Clear([]uint16) error { return nil }

type c13r7cConsumer struct{}

func (c13r7cConsumer) ConsumeEvent(ctx *models.ListenerContext) { ctx.Ack() }
func (c13r7cConsumer) TrackOffset(uint16, *models.Offset)       {}

// The scenario itself; runs in the child process only.
func TestK3CloseWhileReopenIsRetryingChild(t *testing.T) {
	if os.Getenv(c13r7cChildEnv) != "1" {
		t.Skip("helper of TestK3CloseWhileReopenIsRetrying")
	}

	cfg := &config.Dcp{}
	cfg.Dcp.Group.Membership.Type = "static"
	cfg.API.Disabled = true
	cfg.HealthCheck.Disabled = true
	cfg.RollbackMitigation.Disabled = true
	cfg.Checkpoint.Interval = time.Hour
	cfg.Logging.Level = "error"
	cfg.ApplyDefaults()
	if logger.Log == nil {
		logger.InitDefaultLogger("error")
	}

	cl := &c13r7cClient{
		nVb:       4,
		observers: map[uint16]couchbase.Observer{},
		open:      map[uint16]bool{},
		openCount: map[uint16]int{},
	}
	meta := &c13r7cMeta{}

	d := &dcp{
		client:           cl,
		consumer:         c13r7cConsumer{},
		config:           cfg,
		version:          &couchbase.Version{Major: 7, Minor: 6, Patch: 0},
		bucketInfo:       &couchbase.BucketInfo{BucketType: "membase", StorageBackend: "couchstore"},
		apiShutdown:      make(chan struct{}, 1),
		cancelCh:         make(chan os.Signal, 1),
		stopCh:           make(chan struct{}, 1),
		readyCh:          make(chan struct{}, 1),
		metricCollectors: []prometheus.Collector{},
		eventHandler:     models.DefaultEventHandler,
		bus:              EventBus.New(),
	}
	d.SetMetadata(meta)

	done := make(chan struct{})
	go func() {
		d.Start()
		close(done)
	}()

	select {
	case <-d.WaitUntilReady():
	case <-time.After(10 * time.Second):
		t.Fatal("connector did not become ready")
	}

	o := cl.observer(2)
	o.SnapshotMarker(models.DcpSnapshotMarker{VbID: 2, StartSeqNo: 7, EndSeqNo: 7})
	o.Mutation(gocbcore.DcpMutation{VbID: 2, SeqNo: 7, Key: []byte("doc"), Cas: uint64(time.Now().UnixNano())})

	// node hiccup: the stream of vBucket 2 is dropped, the library re-opens it on its own
	cl.socketClosed(2)

	// ... and at most 300 ms later the application is told to shut down
	for deadline := time.Now().Add(300 * time.Millisecond); time.Now().Before(deadline) && cl.opened(2) < 2; {
		time.Sleep(5 * time.Millisecond)
	}

	d.Close()

	select {
	case <-done:
	case <-time.After(10 * time.Second):
		t.Fatal("Close() did not return within 10s")
	}

	cl.mu.Lock()
	for vbID, open := range cl.open {
		if open {
			cl.mu.Unlock()
			t.Fatalf("vBucket %d stream is open after Close()", vbID)
		}
	}
	if !cl.dcpClosed || !cl.closed {
		cl.mu.Unlock()
		t.Fatalf("connections not closed: dcpClosed=%v closed=%v", cl.dcpClosed, cl.closed)
	}
	opensAtClose := cl.openCount[2]
	cl.mu.Unlock()

	meta.mu.Lock()
	if len(meta.saves) == 0 || meta.saves[len(meta.saves)-1][2] != 7 {
		meta.mu.Unlock()
		t.Fatalf("final checkpoint does not contain the acknowledged position of vBucket 2: %v", meta.saves)
	}
	meta.mu.Unlock()

	// the application flushes its own sinks for a few seconds before it exits
	time.Sleep(7 * time.Second)

	_ = opensAtClose
}

func TestK3CloseWhileReopenIsRetrying(t *testing.T) {
	if os.Getenv(c13r7cChildEnv) == "1" {
		t.Skip("running as child")
	}

	cmd := exec.Command(os.Args[0], "-test.run=^TestK3CloseWhileReopenIsRetryingChild$", "-test.v", "-test.timeout=50s")
	cmd.Env = append(os.Environ(), c13r7cChildEnv+"=1")

	out, err := cmd.CombinedOutput()
	if err != nil {
		lines := strings.Split(strings.TrimSpace(string(out)), "\n")
		if len(lines) > 30 {
			lines = lines[:30]
		}
		t.Fatalf("the process running the connector did not exit cleanly (%v):\n%s", err, strings.Join(lines, "\n"))
	}

	if !strings.Contains(string(out), "--- PASS: TestK3CloseWhileReopenIsRetryingChild") {
		t.Fatalf("child scenario did not pass:\n%s", out)
	}
}
