#!/bin/sh
# usage: ./run.sh <property-id> quick|thorough
# Decides one property by static analysis of /repo's *current* working tree (nothing under /repo is executed).
set -u
cd "$(dirname "$0")"
export GOFLAGS=-mod=mod GOPROXY=off GOSUMDB=off GOTOOLCHAIN=local GOWORK=off
REPO="${VERIF_REPO:-/repo}"
ID="$1"; TIER="${2:-quick}"
if [ ! -x bin/dcpverif ] || [ -n "$(find checker -name '*.go' -newer bin/dcpverif 2>/dev/null | head -1)" ]; then
  ./setup.sh >/dev/null || { echo "VIOLATION property=$ID replay=checker-build-failed"; exit 1; }
fi
exec bin/dcpverif -prop "$ID" -tier "$TIER" -repo "$REPO" -out "$(pwd)"
